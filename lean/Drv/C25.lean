import SymVerif.DrvCommon
import SymVerif.Model.CSR
/-! Driver for C25: one whole CSR history per line, segments separated by ` | `.

first segment (constructor)
  `coo <r> <c> <T>`          CSRMatrix::from_coo, `T` = `i,j,v;i,j,v;…` or `-`
  `raw <r> <c> <P> <J> <X>`  CSRMatrix(r, c, p, j, x)  (asserts is_canonical)
  `zero <r> <c>`             CSRMatrix(r, c)
  `jac <c> <ROWS>`           CSRMatrix::jacobian of the linear map with coefficient rows `a,b,c;d,e,f`
  `chkraw <r> <P> <J>`       the three static predicates on raw arrays (no matrix is built)
following segments
  `set i j v` `get i j` `add T` `sub T` `emul T` `T` `conj` `srows L` `scols L` `diag` `chk`
  `mul <c2> <T>`             csr_matmat_pass1/2 with B = from_coo(col, c2, T) into a preallocated full C
  `ni <name>`                the NotImplemented entry points
output: one segment per call joined by `|`; a state is `RxC;p;j;x;is_canonical`; an error token ends the line. -/
open SymVerif SymVerif.CSR

def parseQ (s : String) : Option Q :=
  match s.splitOn "/" with
  | [a] => a.toInt?.map (fun n => (n : Q))
  | [a, b] => do
      let n ← a.toInt?
      let d ← b.toNat?
      if d = 0 then none else pure (mkRat n d)
  | _ => none

def parseList {α : Type} (f : String → Option α) (sep : String) (s : String) : Option (List α) :=
  if s == "-" then some [] else (s.splitOn sep).mapM f

def parseTriple (s : String) : Option Triple :=
  match s.splitOn "," with
  | [a, b, c] => do
      let i ← a.toNat?
      let j ← b.toNat?
      let v ← parseQ c
      pure (i, j, v)
  | _ => none

def parseCoo (s : String) : Option (List Triple) := parseList parseTriple ";" s
def parseNats (s : String) : Option (List Nat) := parseList String.toNat? "," s
def parseQs (s : String) : Option (List Q) := parseList parseQ "," s

def showQ (q : Q) : String :=
  if q.den = 1 then toString q.num else s!"{q.num}/{q.den}"

def showL {α : Type} (f : α → String) (l : List α) : String :=
  if l.isEmpty then "-" else ",".intercalate (l.map f)

def showErr : Err → String
  | .oob => "E:oob"
  | .assert => "E:Assert"
  | .fuel => "E:fuel"
  | .runtime => "E:Runtime"
  | .notImpl => "E:NotImplemented"

def showMat (m : Mat) : String :=
  let c := match isCanonical m with
    | .ok true => "1"
    | .ok false => "0"
    | .error e => showErr e
  s!"{m.row}x{m.col};{showL toString m.p.toList};{showL toString m.j.toList};{showL showQ m.x.toList};{c}"

def b01 (b : Bool) : String := if b then "1" else "0"

def showOut (m : Mat) : Out → String
  | .state => showMat m
  | .val q => showQ q
  | .vals l => showL showQ l
  | .flags s d c => s!"{b01 s},{b01 d},{b01 c}"

/-- a parsed call: a model op, the matmat call, or a NotImplemented entry point -/
inductive Call where
  | op (o : Op)
  | mul (c2 : Nat) (ts : List Triple)
  | ni

def parseCall (s : String) : Option Call :=
  match s.splitOn " " with
  | ["set", a, b, v] => do
      let i ← a.toNat?
      let j ← b.toNat?
      let q ← parseQ v
      pure (.op (.set i j q))
  | ["get", a, b] => do
      let i ← a.toNat?
      let j ← b.toNat?
      pure (.op (.get i j))
  | ["add", t] => (parseCoo t).map (fun ts => .op (.add ts))
  | ["sub", t] => (parseCoo t).map (fun ts => .op (.sub ts))
  | ["emul", t] => (parseCoo t).map (fun ts => .op (.emul ts))
  | ["T"] => some (.op .transpose)
  | ["conj"] => some (.op .conj)
  | ["srows", l] => (parseQs l).map (fun X => .op (.scaleRows X))
  | ["scols", l] => (parseQs l).map (fun X => .op (.scaleCols X))
  | ["diag"] => some (.op .diag)
  | ["chk"] => some (.op .check)
  | ["mul", c, t] => do
      let c2 ← c.toNat?
      let ts ← parseCoo t
      pure (.mul c2 ts)
  | ["ni", _] => some .ni
  | _ => none

def doCall (m : Mat) : Call → Except Err (Mat × Out)
  | .op o => step m o
  | .mul c2 ts => do
      let b ← fromCoo m.col c2 ts
      let r ← matmat m b
      pure (r, .state)
  | .ni => .error .notImpl

/-- the calls that are not model `Op`s (matmat, NotImplemented entry points) and whatever follows them -/
def runCalls : Mat → List Call → List String → List String
  | _, [], acc => acc.reverse
  | m, c :: cs, acc =>
    match doCall m c with
    | .error e => (showErr e :: acc).reverse
    | .ok (m', o) => runCalls m' cs (showOut m' o :: acc)

/-- the maximal prefix of model `Op`s of a history -/
def opPrefix : List Call → List Op × List Call
  | .op o :: cs => let (os, rest) := opPrefix cs; (o :: os, rest)
  | cs => ([], cs)

/-- a history: the prefix of model ops goes through `CSR.run` (the function of the theorems
`history_canon` / `history_states_canon`), the rest through `runCalls` -/
def runHistory (m : Mat) (calls : List Call) : List String :=
  let (ops, rest) := opPrefix calls
  let (states, err) := CSR.run m ops []
  let outs := states.map (fun s => showOut s.1 s.2)
  match err with
  | some e => outs ++ [showErr e]
  | none =>
    let last := match states.getLast? with
      | some s => s.1
      | none => m
    outs ++ runCalls last rest []

def parseCtor (s : String) : Option (Except Err Mat ⊕ String) :=
  match s.splitOn " " with
  | ["coo", r, c, t] => do
      let r ← r.toNat?
      let c ← c.toNat?
      let ts ← parseCoo t
      pure (.inl (fromCoo r c ts))
  | ["raw", r, c, p, j, x] => do
      let r ← r.toNat?
      let c ← c.toNat?
      let p ← parseNats p
      let j ← parseNats j
      let x ← parseQs x
      pure (.inl (mk r c p.toArray j.toArray x.toArray))
  | ["zero", r, c] => do
      let r ← r.toNat?
      let c ← c.toNat?
      pure (.inl (.ok (zeroMat r c)))
  | ["jac", c, rows] => do
      let c ← c.toNat?
      let rows ← parseList parseQs ";" rows
      pure (.inl (jacobian c rows))
  | ["chkraw", r, p, j] => do
      let r ← r.toNat?
      let p ← parseNats p
      let j ← parseNats j
      let res : Except Err String := do
        let s ← hasSortedIndices p.toArray j.toArray r
        let d ← hasDuplicates p.toArray j.toArray r
        let c ← hasCanonicalFormat p.toArray j.toArray r
        pure s!"{b01 s},{b01 d},{b01 c}"
      pure (.inr (match res with | .ok s => s | .error e => showErr e))
  | _ => none

def handle (line : String) : String :=
  match line.splitOn " | " with
  | [] => "bad-op"
  | first :: rest =>
    match parseCtor first with
    | none => "bad-op"
    | some (.inr s) => s
    | some (.inl (.error e)) => showErr e
    | some (.inl (.ok m)) =>
      match rest.mapM parseCall with
      | none => "bad-op"
      | some calls => "|".intercalate (showMat m :: runHistory m calls)

def main : IO Unit := drvMain handle
