import SymVerif.DrvCommon
import SymVerif.Model.Num
import SymVerif.Model.NumIO
/-! Driver for C05: `<op> <a> <b>` per line; see SymVerif/Model/NumIO.lean for the token syntax. -/
def handle (line : String) : String := SymVerif.Num.IO.handle line
def main : IO Unit := SymVerif.drvMain handle
