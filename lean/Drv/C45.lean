import SymVerif.DrvCommon
import SymVerif.Model.EvalDrv
import SymVerif.Model.Mpfr
import SymVerif.Gen.MpfrFormulas
/-! Driver for C45 (certificate mode): input `op<TAB>impl-output`.
ops:  `ev <prec> <dump>`                          eval_mpfr / evalf(prec, Real) of a closed tree
      `ar <op> <p> <this> <kind> <other> [<q>]`   RealMPFR arithmetic dispatch
`ev`: impl output `v=<bits|E:…>;tol=<ulps>;sp=<special table>;o=<ordered dump>`.  The driver checks that `o` is
the op's tree up to dictionary order, evaluates it with the definition table translated from eval_mpfr.cpp
(`Mpfr.toDefs`) at `Float`, and compares with the 53-bit rounding of the real result within `tol` ulp
(condition-scaled, supplied by the harness' reference evaluator; at least 4).
`ar`: the driver computes the outcome token from the dispatch table translated from real_mpfr.cpp
(`Mpfr.outcome`: R<precision> | Z | E:Runtime) and requires equality. -/
open SymVerif SymVerif.EvalG SymVerif.Mpfr

def mpfrDefsG : Defs := toDefs EvalG.Gen.visitorReal Mpfr.Gen.mpfrDefs

def isNegStr (s : String) : Bool := s.startsWith "-"

def handleEv (op impl : String) : String :=
  match op.splitOn " " with
  | _ :: _p :: rest =>
    match Expr.parse (" ".intercalate rest) with
    | none => "bad-op"
    | some e =>
      let fs := parseFields impl
      match field fs "o", field fs "v", field fs "tol", (field fs "sp").bind parseSpec with
      | some o, some v, some tolS, some spec =>
        match Expr.parse o with
        | none => "bad-ordered-dump"
        | some eo =>
          if Expr.dumpCanon eo != Expr.dumpCanon e then "ordered-dump-is-a-different-tree" else
          let mv := evalG (mkCtx spec mpfrDefsG (fun _ => none)) eo
          match mv with
          | .error .noOracle => "SKIP:nooracle"
          | _ =>
            let tol := tolS.toNat?.getD 0
            if tol == 0 then
              (if agree 64 mv v then "ok" else
                match mv with
                | .error _ => s!"model={showRes mv} impl={v}"
                | .ok _ => if v.startsWith "E:" then s!"model={showRes mv} impl={v}" else "SKIP:illconditioned")
            else if agree (max tol 4) mv v then "ok"
            else s!"eval_mpfr model={showRes mv} impl={v} tol={tol}"
      | _, _, _, _ => "bad-impl-output"
  | _ => "bad-op"

def handleAr (op impl : String) : String :=
  match op.splitOn " " with
  | _ :: o :: p :: self :: kind :: other :: rest =>
    match p.toNat?, findArith Mpfr.Gen.realArith o kind with
    | some pn, some e =>
      let q := match rest with
        | qs :: _ => qs.toNat?.getD 0
        | [] => 0
      let otherZero := kind == "Integer" && (other == "0" || other == "-0")
      let tok := outcomeTok (outcome e pn q otherZero (isNegStr self) (isNegStr other))
      if tok == impl then "ok" else s!"dispatch model={tok} impl={impl}"
    | _, _ => "no-such-method"
  | _ => "bad-op"

def handle (line : String) : String :=
  match line.splitOn "\t" with
  | [op, impl] =>
    if op.startsWith "ev " then handleEv op impl
    else if op.startsWith "ar " then handleAr op impl
    else "bad-op"
  | _ => "bad-line"

def main : IO Unit := drvMain handle
