import SymVerif.DrvCommon
import SymVerif.Model.FiniteDiff
/-! Driver for C38: `fd <max_deriv> <around> <g0> <g1> …` — rationals written `n` or `n/d`.
Output: the flat weight vector (`j + k*len`), entries `n` or `n/d` joined by `,`;
`E:oob` (index outside a vector) or `nonfinite` (division by zero: repeated grid points). -/
open SymVerif SymVerif.FiniteDiff

def parseRat (s : String) : Option Rat :=
  match s.splitOn "/" with
  | [a] => a.toInt?.map (fun n => (n : Rat))
  | [a, b] => do
    let n ← a.toInt?
    let d ← b.toNat?
    if d == 0 then none else pure (mkRat n d)
  | _ => none

def showRat (q : Rat) : String :=
  if q.den == 1 then toString q.num else s!"{q.num}/{q.den}"

def handle (line : String) : String :=
  match line.splitOn " " with
  | "fd" :: md :: ar :: g =>
    match md.toNat?, parseRat ar, g.mapM parseRat with
    | some m, some a, some gs =>
      match weights gs.toArray m a with
      | .ok w => ",".intercalate (w.toList.map showRat)
      | .error .oob => "E:oob"
      | .error .divzero => "nonfinite"
    | _, _, _ => "bad-op"
  | _ => "bad-op"

def main : IO Unit := drvMain handle
