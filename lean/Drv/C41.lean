import SymVerif.DrvCommon
import SymVerif.Model.Conc
/-! Driver for C41: `C <threads> <seed> <shared> <ops>`.

The harness runs `<threads>` real threads over `<shared>` shared expressions and prints `same` when
every thread's results digest equals the digest of the sequential run.  The model's prediction is
`same` for every schedule (theorem `C41.results_seq`); the driver additionally *executes* the model
on a pseudo-random schedule derived from the seed (programs of `<ops>` operations per thread over
`<shared>` nodes) and prints `same` only if every thread finished without fault with exactly its
sequential results and all counters equal the number of references held — so a model that stopped
agreeing with its own theorem would show up as a correspondence difference. -/
open SymVerif SymVerif.Conc

def lcg (x : Nat) : Nat := (x * 6364136223846793005 + 1442695040888963407) % 18446744073709551616

/-- a well-formed thread program: never uses a node it does not hold; never drops its last reference -/
def genProg : Nat → Nat → Nat → List Nat → List TOp → List TOp
  | 0, _, _, _, acc => acc.reverse
  | fuel + 1, rnd, k, held, acc =>
    let r1 := lcg rnd
    let r2 := lcg r1
    let o := (r1 / 65536) % k
    let kind := (r2 / 65536) % 10
    let h := held.getD o 0
    if kind < 4 then genProg fuel r2 k held (.hash o :: acc)
    else if kind < 6 then genProg fuel r2 k held (.read o :: acc)
    else if kind < 8 then genProg fuel r2 k (held.set o (h + 1)) (.copy o :: acc)
    else if h ≥ 2 then genProg fuel r2 k (held.set o (h - 1)) (.drop o :: acc)
    else genProg fuel r2 k held (.hash o :: acc)

def genSched : Nat → Nat → Nat → List Nat → List Nat
  | 0, _, _, acc => acc
  | fuel + 1, rnd, n, acc => let r := lcg rnd; genSched fuel r n (((r / 65536) % n) :: acc)

def check (n seed k m : Nat) : String :=
  if n = 0 || k = 0 then "bad-op" else
  let nodes : List Node := (List.range k).map (fun o =>
    { val := 1000 + o, H := (lcg (seed + o)) % 1000003 + 1, hash := 0, count := n, live := true })
  let threads := (List.range n).map (fun t =>
    mkThread (genProg m (lcg (seed * 31 + t)) k (List.replicate k 1) []) (List.range k))
  let s0 : State := { nodes := nodes, threads := threads }
  let sched := genSched (n * m * 2) (lcg (seed + 77)) n []
  let tail := (List.range (3 * m + 3)).flatMap (fun _ => List.range n)
  let s := runSched true s0 (sched ++ tail)
  let okThreads := (List.zip s.threads s0.threads).all (fun p =>
    p.1.prog.isEmpty && p.1.fault.isNone && p.1.results == seqResults s0.nodes p.2.prog)
  let okCounts := (List.range k).all (fun o => totalHeld s o == cnt s o)
  let okHash := s.nodes.all (fun nd => nd.hash == 0 || nd.hash == nd.H)
  if okThreads && okCounts && okHash then "same"
  else s!"diff:model threads={okThreads} counts={okCounts} hash={okHash}"

def handle (line : String) : String :=
  match line.splitOn " " with
  | ["C", a, b, c, d] =>
    match a.toNat?, b.toNat?, c.toNat?, d.toNat? with
    | some n, some seed, some k, some m => check n seed k m
    | _, _, _, _ => "bad-op"
  | _ => "bad-op"

def main : IO Unit := drvMain handle
