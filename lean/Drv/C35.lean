import SymVerif.DrvCommon
import SymVerif.Model.Refine
import SymVerif.Model.NF
/-! Driver for C35 (certificate mode): `refine|simplify (A <statement>…) <expr>` TAB `<library result>` →
`ok`, `SKIP:…`, or a description of the difference.

The model (Model/Refine.lean) builds its result with raw constructors; the library re-canonicalises.  The two
are compared by `sim`: both sides are brought to the rational-function normal form of Model/NF.lean after the
arguments of function applications (and the parts of non-integer powers) have themselves been replaced by
their normal forms, `ceiling(u)` is rewritten to `-floor(-u)`, and the arguments of Max/Min are sorted. -/
open SymVerif SymVerif.Queries SymVerif.Refine

def giStr (g : NF.GI) : String := s!"{g.re},{g.im}"
def monoStr (m : NF.Mono) : String := ";".intercalate (m.map fun p => s!"{p.1}^{p.2}")
def polyStr (p : NF.Poly) : String := "|".intercalate (p.map fun t => monoStr t.1 ++ ":" ++ giStr t.2)
def fracStr (f : NF.Frac) : String := "#[" ++ polyStr f.num ++ "]/[" ++ polyStr f.den ++ "]"

def key (e : Expr) : Expr :=
  match NF.norm e with
  | .ok f => .sym (fracStr f)
  | .error _ => e

def exactVal : Expr → Option (Int × Nat)
  | .int n => some (n, 1)
  | .rat n d => some (n, d)
  | _ => none

/-- fold the exact numbers among the arguments of Max (`isMax`) / Min into one -/
def foldNums (isMax : Bool) (l : List Expr) : List Expr :=
  let nums := l.filterMap fun a => (exactVal a).map fun q => (q, a)
  let rest := l.filter fun a => (exactVal a).isNone
  match nums with
  | [] => rest
  | (q0, a0) :: t =>
    let best := t.foldl (fun (acc : (Int × Nat) × Expr) (x : (Int × Nat) × Expr) =>
      let lt := acc.1.1 * x.1.2 < x.1.1 * acc.1.2   -- acc < x
      if (isMax && lt) || (!isMax && !lt && !(acc.1.1 * x.1.2 == x.1.1 * acc.1.2)) then x else acc) (q0, a0)
    best.2 :: rest

partial def canon : Expr → Expr
  | .add c ts => .add (canon c) (ts.map fun p => (canon p.1, canon p.2))
  | .mul c fs => .mul (canon c) (fs.map fun p =>
      match p.2 with
      | .int _ => (canon p.1, p.2)
      | _ => (key (canon p.1), key (canon p.2)))
  | .pow b x =>
    match x with
    | .int _ => .pow (canon b) x
    | _ =>
      match canon b, exactVal x with
      | .int 1, _ => .int 1                                   -- 1**q = 1
      | .int 0, some (n, _) => if n > 0 then .int 0 else .pow (.int 0) x
      | cb, _ => .pow (key cb) (key (canon x))
  | .app h args =>
    if h == "Ceiling" then
      match args with
      | [u] => negRaw (.app "Floor" [key (canon (negRaw u))])
      | _ => .app h args
    else if h == "Abs" then
      -- abs(u) = abs(-u): orient by the smaller key
      match args with
      | [u] =>
        let k1 := key (canon u)
        let k2 := key (canon (negRaw u))
        .app "Abs" [if Expr.dump k1 ≤ Expr.dump k2 then k1 else k2]
      | _ => .app h args
    else if h == "Conjugate" || h == "Sign" then
      -- odd: f(-u) = -f(u); orient by the smaller key
      match args with
      | [u] =>
        let k1 := key (canon u)
        let k2 := key (canon (negRaw u))
        if Expr.dump k1 ≤ Expr.dump k2 then .app h [k1] else negRaw (.app h [k2])
      | _ => .app h args
    else if h == "Max" || h == "Min" then
      let as := (foldNums (h == "Max") args).map fun a => key (canon a)
      let ds := (sortStrs (as.map Expr.dump)).eraseDups
      match as with
      | [a] => a
      | _ => .sym (h ++ "(" ++ " ".intercalate ds ++ ")")
    else .app h (args.map fun a => key (canon a))
  | .fsym n args => .fsym n (args.map fun a => key (canon a))
  | e => e

def sim (a b : Expr) : Bool :=
  let ca := canon a
  let cb := canon b
  NF.equiv ca cb || Expr.dumpCanon ca == Expr.dumpCanon cb

def run (cmd : String) (asIs : Bool) (A : Assumptions) (e : Expr) : Except Err Expr :=
  if cmd == "refine" then refine asIs A e else simplify asIs A e

def handle (line : String) : String :=
  match line.splitOn "\t" with
  | [op, out] =>
    match SExp.parseAll op with
    | some [.atom cmd, .list (.atom "A" :: stmts), e] =>
      if !(cmd == "refine" || cmd == "simplify") then "bad-op" else
      match Expr.ofSExpList stmts, Expr.ofSExp e with
      | some stmts, some e =>
        if !(wf e) then "bad-op:wf" else
        match build stmts with
        | .error _ => if out == "E:Runtime" then "ok" else "diff:model=E:Runtime"
        | .ok A =>
          match Expr.parse out with
          | none => "diff:unparsable-output"
          | some o =>
            match run cmd false A e, run cmd true A e with
            | .ok m, .ok m' =>
              if sim m o then "ok"
              else if sim m' o then "SKIP:known-D16"
              else "diff:model=" ++ Expr.dumpCanon m
            | _, _ => "SKIP:unmodelled"
      | _, _ => "bad-op"
    | _ => "bad-op"
  | _ => "bad-op"

def main : IO Unit := drvMain handle
