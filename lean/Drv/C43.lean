import SymVerif.DrvCommon
import SymVerif.Model.MpSpec
import SymVerif.Model.MpBoost
import SymVerif.Gen.C43Expected
/-! Driver for C43.

`mp <fn> <args…>`  : prints the value of the specification `MpSpec.<fn>`; where the hand-written Boost
implementation is modelled (`MpBoost.<fn>`) it is evaluated too and must agree, otherwise the line
`MODEL-DIFF …` is printed (which then differs from every real backend's output).

`work <family> <k>` : prints the result recorded from the GMP build (`Gen/C43Expected.lean`,
regenerated on every run), so that every other backend is compared with the GMP backend. -/
open SymVerif

def digest (s : String) : String :=
  if s.length ≤ 300 then s
  else
    let h1 := s.foldl (fun (h : Nat) c => (h * 131 + c.toNat) % 1000000007) 0
    let h2 := s.foldl (fun (h : UInt64) c => (h ^^^ c.toNat.toUInt64) * (1099511628211 : UInt64))
      (1469598103934665603 : UInt64)
    s!"#{s.length}:{h1}:{h2.toNat}:{(s.take 40).toString}"

def showB (b : Bool) : String := if b then "1" else "0"
def showOI : Option Int → String
  | some i => toString i
  | none => "undef"
def showQ (q : MpSpec.Q) : String := s!"{q.num}/{q.den}"

/-- value according to the specification -/
def evalSpec (fn : String) (a : List Int) : String :=
  match fn, a with
  | "fdiv_qr", [a, b] => s!"{MpSpec.fdivQ a b} {MpSpec.fdivR a b}"
  | "fdiv_qr_alias", [a, b] => s!"{MpSpec.fdivQ a b} {MpSpec.fdivR a b}"
  | "tdiv_qr", [a, b] => s!"{MpSpec.tdivQ a b} {MpSpec.tdivR a b}"
  | "fdiv_q", [a, b] => toString (MpSpec.fdivQ a b)
  | "fdiv_r", [a, b] => toString (MpSpec.fdivR a b)
  | "fdiv_r_alias", [a, b] => toString (MpSpec.fdivR a b)
  | "cdiv_q", [a, b] => toString (MpSpec.cdivQ a b)
  | "tdiv_q", [a, b] => toString (MpSpec.tdivQ a b)
  | "div", [a, b] => toString (MpSpec.tdivQ a b)
  | "mod", [a, b] => toString (MpSpec.tdivR a b)
  | "shl", [a, k] => toString (MpSpec.shl a k.toNat)
  | "shr", [a, k] => showOI (MpSpec.shrNonneg a k.toNat)
  | "gcd", [a, b] => toString (MpSpec.gcd a b)
  | "lcm", [a, b] => toString (MpSpec.lcm a b)
  | "gcdext", [a, b] => let r := MpSpec.gcdext a b; s!"{r.1} {r.2.1} {r.2.2}"
  | "invert", [a, m] => match MpSpec.invert a m with
    | none => "0"
    | some r => s!"1 {r}"
  | "powm", [b, e, m] => showOI (MpSpec.powm b e m)
  | "pow_ui", [a, n] => digest (toString (a ^ n.toNat))
  | "root", [i, n] => match MpSpec.root i n.toNat with
    | none => "undef"
    | some r => s!"{showB r.2} {r.1}"
  | "rootrem", [i, n] => match MpSpec.rootrem i n.toNat with
    | none => "undef"
    | some r => s!"{r.1} {r.2}"
  | "sqrt", [i] => showOI (MpSpec.sqrt i)
  | "sqrtrem", [i] => match MpSpec.sqrtrem i with
    | none => "undef"
    | some r => s!"{r.1} {r.2}"
  | "perfect_power_p", [i] => showB (MpSpec.perfectPower i)
  | "perfect_power_p_t", [i, _] => showB (MpSpec.perfectPower i)
  | "perfect_square_p", [i] => showB (MpSpec.perfectSquare i)
  | "legendre", [a, p] => showOI (MpSpec.legendre a p)
  | "jacobi", [a, n] => showOI (MpSpec.jacobi a n)
  | "kronecker", [a, n] => toString (MpSpec.kronecker a n)
  | "nextprime", [i] => toString (MpSpec.nextPrime i)
  | "probab_prime_p", [i] => showB (MpSpec.probabPrime i)
  | "fib", [n] => digest (toString (MpSpec.fib n.toNat))
  | "fib2", [n] => let r := MpSpec.fib2 n.toNat; digest s!"{r.1} {r.2}"
  | "lucnum", [n] => digest (toString (MpSpec.lucnum n.toNat))
  | "lucnum2", [n] => let r := MpSpec.lucnum2 n.toNat; digest s!"{r.1} {r.2}"
  | "fac", [n] => digest (toString (MpSpec.fac n.toNat))
  | "bin", [n, k] => digest (toString (MpSpec.bin n k.toNat))
  | "primorial", [n] => digest (toString (MpSpec.primorial n.toNat))
  | "scan1", [i] => match MpSpec.scan1 i with
    | none => "max"
    | some k => toString k
  | "and", [a, b] => toString (MpSpec.and a b)
  | "get_si", [i] => showOI (MpSpec.getSi i)
  | "get_ui", [i] => showOI (MpSpec.getUi i)
  | "fits_ulong", [i] => showB (MpSpec.fitsUlong i)
  | "fits_slong", [i] => showB (MpSpec.fitsSlong i)
  | "sign", [i] => toString i.sign
  | "abs", [i] => toString (i.natAbs : Int)
  | "cmpabs", [a, b] => toString (MpSpec.cmpabs a b)
  | "divisible_p", [a, b] => showB (MpSpec.divisible a b)
  | "divexact", [a, b] => toString (MpSpec.tdivQ a b)
  | "addmul", [r, a, b] => toString (r + a * b)
  | "hex", [i] => MpSpec.hex i
  | "arith", [a, b] =>
    let c : Int := if a < b then -1 else if a = b then 0 else 1
    digest s!"{a + b} {a - b} {a * b} {-a} {c}"
  | "q", [a, b, c, d, n] =>
    let p := MpSpec.Q.mk' a b
    let q := MpSpec.Q.mk' c d
    let dv := if c = 0 then "-" else showQ (p.div q)
    digest s!"{showQ p} {showQ q} {showQ (p.add q)} {showQ (p.sub q)} {showQ (p.mul q)} {dv} {p.cmp q} {p.num.sign} {showQ p.abs} {showQ (p.pow n.toNat)}"
  | _, _ => "bad-op"

/-- value according to the model of the hand-written Boost code (`none`: that function is Boost library code
or a one-line wrapper, there is nothing of symengine's to model) -/
def evalBoost (fn : String) (a : List Int) : Option String :=
  match fn, a with
  | "fdiv_qr", [a, b] => let r := MpBoost.fdivQr a b; some s!"{r.1} {r.2}"
  | "fdiv_qr_alias", [a, b] => let r := MpBoost.fdivQr a b; some s!"{r.1} {r.2}"
  | "tdiv_qr", [a, b] => let r := MpBoost.tdivQr a b; some s!"{r.1} {r.2}"
  | "fdiv_q", [a, b] => some (toString (MpBoost.fdivQ a b))
  | "fdiv_r", [a, b] => some (toString (MpBoost.fdivR a b))
  | "fdiv_r_alias", [a, b] => some (toString (MpBoost.fdivR a b))
  | "cdiv_q", [a, b] => some (toString (MpBoost.cdivQ a b))
  | "tdiv_q", [a, b] => some (toString (MpBoost.tdivQ a b))
  | "gcdext", [a, b] => let r := MpBoost.gcdext a b; some s!"{r.1} {r.2.1} {r.2.2}"
  | "invert", [a, m] => some (match MpBoost.invert a m with
    | none => "0"
    | some r => s!"1 {r}")
  | "powm", [b, e, m] => some (showOI (MpBoost.powm b e m))
  | "root", [i, n] => some (match MpBoost.root i n.toNat with
    | none => "undef"
    | some r => s!"{showB r.2} {r.1}")
  | "rootrem", [i, n] => some (match MpBoost.rootrem i n.toNat with
    | none => "undef"
    | some r => s!"{r.1} {r.2}")
  | "sqrt", [i] => some (showOI (MpBoost.sqrt i))
  | "sqrtrem", [i] => some (match MpBoost.sqrtrem i with
    | none => "undef"
    | some r => s!"{r.1} {r.2}")
  | "perfect_power_p", [i] => some (match MpBoost.perfectPower i with
    | none => "throws"
    | some b => showB b)
  | "perfect_power_p_t", [i, _] => some (match MpBoost.perfectPower i with
    | none => "throws"
    | some b => showB b)
  | "perfect_square_p", [i] => some (showB (MpBoost.perfectSquare i))
  | "legendre", [a, p] => some (showOI (MpBoost.legendre a p))
  | "jacobi", [a, n] => some (showOI (MpBoost.jacobi a n))
  | "kronecker", [a, n] => some (showOI (MpBoost.kronecker a n))
  | "nextprime", [i] => some (toString (MpBoost.nextPrime i))
  | "probab_prime_p", [i] => some (showB (MpBoost.probabPrime i))
  | "fib", [n] => some (digest (toString (MpBoost.fib n.toNat)))
  | "fib2", [n] => let r := MpBoost.fib2 n.toNat; some (digest s!"{r.1} {r.2}")
  | "lucnum", [n] => some (digest (toString (MpBoost.lucnum n.toNat)))
  | "lucnum2", [n] => some (match MpBoost.lucnum2 n.toNat with
    | none => "throws"
    | some r => digest s!"{r.1} {r.2}")
  | "fac", [n] => some (digest (toString (MpBoost.fac n.toNat)))
  | "bin", [n, k] => some (digest (toString (MpBoost.bin n k.toNat)))
  | "scan1", [i] => some (match MpBoost.scan1 i with
    | none => "max"
    | some k => toString k)
  | _, _ => none

def lookupWork (key : String) : Option String :=
  (SymVerif.Gen.C43Expected.table.find? (fun p => p.1 == key)).map (·.2)

def handle (line : String) : String :=
  match line.splitOn " " with
  | "mp" :: fn :: args =>
    match args.mapM String.toInt? with
    | none => "bad-op"
    | some a =>
      let s := evalSpec fn a
      match evalBoost fn a with
      | none => s
      | some b => if b == s then s else s!"MODEL-DIFF spec={s} boostmodel={b}"
  | ["parse", lit] =>
    -- a decimal integer literal (possibly with leading zeros) denotes its decimal value
    match lit.toInt? with
    | some v => toString v
    | none => "bad-op"
  | ["work", fam, k] =>
    match lookupWork s!"work {fam} {k}" with
    | some r => r
    | none => "NOT-TABULATED"
  | _ => "bad-op"

def main : IO Unit := drvMain handle
