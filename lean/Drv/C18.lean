import SymVerif.DrvCommon
import SymVerif.Model.ParserState
/-! Driver for C18 (certificate mode).  Input line: `seq <cx> <hex>|<hex>|…` TAB `<class>|<class>|…` where the
classes are what ONE reused `SymEngine::Parser` object answered for the inputs in turn: `ok` or an error token.
The model runs the same history on `PState.init` and every element must agree: model value ⇒ library `ok`, model
`ParseError` ⇒ library `E:Parse`.  Elements whose outcome depends on the smart constructors (Boolean typing unknown)
or where an action threw something else than ParseError are skipped.  `seqs` (SBML parser) is not modelled. -/
open SymVerif SymVerif.Parser

def hexVal (c : Char) : Option Nat :=
  if '0' ≤ c ∧ c ≤ '9' then some (c.toNat - 48)
  else if 'a' ≤ c ∧ c ≤ 'f' then some (c.toNat - 87) else none

def unhex : List Char → Option Bytes
  | [] => some []
  | a :: b :: t => do
    let x ← hexVal a; let y ← hexVal b; let r ← unhex t
    pure (UInt8.ofNat (16 * x + y) :: r)
  | _ => none

/-- "" ok, "skip", or a failure text -/
def judgeElem (o : Outcome) (real : String) : String :=
  match o with
  | .throws .oob => "model-out-of-bounds"
  | .throws .fuel => "model-fuel"
  | .throws .parse =>
    if real == "E:Parse" then "" else if real.startsWith "E:" then "skip" else "model=E:Parse,library=" ++ real
  | .value ast =>
    match check ast with
    | .unknown => "skip"
    | _ =>
      if real == "ok" then "" else if real == "E:Parse" then "model=ok,library=E:Parse"
      else if real.startsWith "E:" then "skip" else "library=" ++ real

def handle (line : String) : String :=
  match line.splitOn "\t" with
  | [opline, real] =>
    match opline.splitOn " " with
    | ["seqs", _] => "SKIP:sbml-parser-not-modelled"
    | ["seq", cx, body] =>
      match (body.splitOn "|").mapM (fun h => unhex h.toList) with
      | none => "bad-hex"
      | some inputs =>
        let outs := PState.init.run (inputs.map fun i => (i, cx == "1"))
        let reals := real.splitOn "|"
        if outs.length != reals.length then "FAIL:length-mismatch" else
        let js := (outs.zip reals).map fun (o, r) => judgeElem o r
        match (js.zipIdx).find? (fun (j, _) => j != "" && j != "skip") with
        | some (j, k) => "FAIL:element-" ++ toString k ++ ":" ++ j
        | none => if js.all (· == "skip") then "SKIP:all-elements-undecided" else "ok"
    | _ => "bad-op"
  | _ => "bad-line"

def main : IO Unit := drvMain handle
