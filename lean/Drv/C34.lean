import SymVerif.DrvCommon
import SymVerif.Model.Queries
import SymVerif.Model.Queries2
/-! Driver for C34: `q <query> (A <statement>…) <expr>` → `T` / `F` / `I` / `E:Runtime` / `SKIP:…`.
Statements and the expression are canonical dumps (harness/sexp.h).

`SKIP:known-…` is printed on exactly the inputs touched by the three combination-rule defects reported in
docs/C34.md (their proposed patches change the answer there from a definite one to indeterminate), so that the
correspondence holds before and after those patches; the oracle of the harness judges these inputs. -/
open SymVerif SymVerif.Queries

def showRes : Except Err Tri → String
  | .ok r => r.toStr
  | .error .runtime => "E:Runtime"
  | .error .unmodelled => "SKIP:unmodelled"

/-- some Add node (anywhere) satisfies `p coef args` -/
partial def anyAdd (p : Expr → List (Expr × Expr) → Bool) : Expr → Bool
  | .add c ts => p c ts || anyAdd p c || ts.any (fun kv => anyAdd p kv.1 || anyAdd p kv.2)
  | .mul c fs => anyAdd p c || fs.any (fun kv => anyAdd p kv.1 || anyAdd p kv.2)
  | .pow b e => anyAdd p b || anyAdd p e
  | .fsym _ args => args.any (anyAdd p)
  | .app _ args => args.any (anyAdd p)
  | _ => false

def countF (l : List Tri) : Nat := l.countP (· == .f)

/-- inputs on which a reported defect (and its proposed patch) changes the answer -/
def knownDefect (q : String) (A : Assumptions) (e : Expr) : Option String :=
  if q == "positive" && anyAdd (fun c _ => !numIsPos c && !numIsNeg c && !numIsZero c) e then
    some "SKIP:known-positive-complex-coef"
  else if q == "real" && anyAdd (fun c ts => countF ((argsOf (.add c ts)).map (isReal A)) ≥ 2) e then
    some "SKIP:known-real-add-two-nonreal"
  else if (q == "rational" || q == "irrational")
      && anyAdd (fun c ts => countF ((argsOf (.add c ts)).map (fun a => (ratF (size a + 1) a).1)) ≥ 2) e then
    some "SKIP:known-rational-add-two-irrational"
  else none

def handle (line : String) : String :=
  match SExp.parseAll line with
  | some [.atom "q", .atom q, .list (.atom "A" :: stmts), e] =>
    match Expr.ofSExpList stmts, Expr.ofSExp e with
    | some stmts, some e =>
      if !(wf e) then "bad-op:wf" else
      match build stmts with
      | .error _ => "E:Runtime"
      | .ok A =>
        match knownDefect q A e with
        | some s => s
        | none => if q == "even" || q == "odd" then showRes (queryParity q A e) else showRes (query q A e)
    | _, _ => "bad-op"
  | some [.atom "poly", .list (.atom "V" :: vars), e] =>
    match Expr.ofSExpList vars, Expr.ofSExp e with
    | some vars, some e => if isPolynomial vars e then "T" else "F"
    | _, _ => "bad-op"
  | _ => "bad-op"

def main : IO Unit := drvMain handle
