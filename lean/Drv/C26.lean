import SymVerif.DrvCommon
import SymVerif.Model.SExp
import SymVerif.Model.MatExpr
import SymVerif.Model.MatExprWF
/-! Driver for C26.  Op lines:
  `build <recipe>`  → `<dump of the result> z=. d=. s=. l=. u=. r=. q=. t=. size=<rows>,<cols>`
  `trace <recipe>`  → dump of `trace(result)`
where a recipe is an S-expression evaluated bottom-up through the constructor functions:
  `(I n)` `(Z r c)` `(diag e…)` `(dense r c e…)` `(M name)` `(add m…)` `(mul f…)` (f a number or a
  recipe) `(had m…)` `(T m)` `(conj m)`; numbers `5`, `-1/2`, `(C re im)`; dimensions: integer,
  rational (rejected by the library) or `(s name)`.
An exception of any constructor ends the op with its token (`E:Domain`, `E:Assert`, …). -/
open SymVerif SymVerif.MatExpr

def parseRat (a : String) : Option Rat :=
  match a.splitOn "/" with
  | [n] => n.toInt?.map (fun z => (z : Rat))
  | [n, d] => do
    let n ← n.toInt?
    let d ← d.toNat?
    if d == 0 then none else pure (mkRat n d)
  | _ => none

def parseNum : SExp → Option GQ
  | .atom a => (parseRat a).map (fun q => ⟨q, 0⟩)
  | .list [.atom "C", .atom r, .atom i] => do
    let r ← parseRat r
    let i ← parseRat i
    pure ⟨r, i⟩
  | _ => none

def parseDimArg : SExp → Option DimArg
  | .atom a =>
    match a.toInt? with
    | some z => some (.int z)
    | none => (parseRat a).map (fun _ => DimArg.nonint)
  | .list [.atom "s", .atom n] => some (.sym n)
  | _ => none

inductive BErr where
  | bad
  | lib (e : Err)

def liftE {α} : Except Err α → Except BErr α
  | .ok a => .ok a
  | .error e => .error (.lib e)

def optB {α} : Option α → Except BErr α
  | some a => .ok a
  | none => .error .bad

mutual
  /-- evaluate a recipe bottom-up through the model's constructor functions -/
  def build : SExp → Except BErr MExpr
    | .atom _ => .error .bad
    | .list [] => .error .bad
    | .list (.list _ :: _) => .error .bad
    | .list (.atom h :: args) =>
      if h == "I" then
        match args with
        | [n] => do let n ← optB (parseDimArg n); liftE (identityMatrix n)
        | _ => .error .bad
      else if h == "Z" then
        match args with
        | [r, c] => do
          let r ← optB (parseDimArg r); let c ← optB (parseDimArg c); liftE (zeroMatrix r c)
        | _ => .error .bad
      else if h == "diag" then do
        let es ← optB (args.mapM parseNum)
        liftE (diagonalMatrix es)
      else if h == "dense" then
        match args with
        | .atom r :: .atom c :: es => do
          let r ← optB r.toNat?; let c ← optB c.toNat?
          let es ← optB (es.mapM parseNum)
          if es.length ≠ r * c then .error .bad else liftE (immutableDenseMatrix r c es)
        | _ => .error .bad
      else if h == "M" then
        match args with
        | [.atom n] => .ok (.sym n)
        | _ => .error .bad
      else if h == "add" then do
        let l ← buildList args
        liftE (matrixAdd l)
      else if h == "had" then do
        let l ← buildList args
        liftE (hadamardProduct l)
      else if h == "mul" then do
        let l ← buildFactors args
        liftE (matrixMul l)
      else if h == "T" then
        match args with
        | [a] => do let a ← build a; liftE (transposeM a)
        | _ => .error .bad
      else if h == "conj" then
        match args with
        | [a] => do let a ← build a; liftE (conjugateM a)
        | _ => .error .bad
      else .error .bad
  def buildList : List SExp → Except BErr (List MExpr)
    | [] => .ok []
    | a :: t => do
      let a ← build a
      let t ← buildList t
      pure (a :: t)
  def buildFactors : List SExp → Except BErr (List Factor)
    | [] => .ok []
    | a :: t => do
      let f ← match parseNum a with
        | some q => pure (Factor.scalar q)
        | none => do let m ← build a; pure (Factor.mat m)
      let t ← buildFactors t
      pure (f :: t)
end

def optDimStr : Option Dim → String
  | some d => d.dump
  | none => "null"

def describe (e : MExpr) : String :=
  let preds := Pred.all.map fun p => s!"{p.key}={(evalPred p e).str}"
  let sz := size e
  -- hypotheses of the soundness theorems, evaluated on what is printed (never violated by a result
  -- of the model's constructors; a marker would show up as a correspondence difference)
  let wf := (if addCanonAll e then "" else " NONCANONICAL-ADD") ++ (if noIdent0 e then "" else " IDENT0")
  dump e ++ " " ++ " ".intercalate preds ++ s!" size={optDimStr sz.1},{optDimStr sz.2}" ++ wf

def handle (line : String) : String :=
  match SExp.parseAll line with
  | some [.atom op, r] =>
    match build r with
    | .error .bad => "bad-op"
    | .error (.lib e) => e.token
    | .ok m =>
      if op == "build" then describe m
      else if op == "trace" then
        match traceM m with
        | .ok t => t.dump
        | .error e => e.token
      else "bad-op"
  | _ => "bad-op"

def main : IO Unit := drvMain handle
