import SymVerif.DrvCommon
import SymVerif.Model.C09Check
/-! Driver for C09 (certificate mode).  Input line `op<TAB>implementation output`:

  expand E<TAB>R                    `ok` iff the proven checker `C09.accepts E R` accepts
  rexpand E<TAB>R                   `SKIP:radical-family` (oracles only)
  rpair E1 E2<TAB>R1 ;; R2 ;; flag  `SKIP:radical-family` (oracles only)
  pair E1 E2<TAB>R1 ;; R2 ;; flag   both certificates + identity decision
  multinomial m n<TAB>table         `ok` iff the table equals the output of the model `Multinomial.run m n`
An implementation output `E:…` (exception; always an oracle failure in the harness) is answered `SKIP:…`.
-/
open SymVerif SymVerif.C09

def handle (line : String) : String :=
  match line.splitOn "\t" with
  | [opline, res] =>
    let opname := (opline.splitOn " ").headD ""
    let rest := (opline.drop (opname.length)).toString
    if opname == "rexpand" || opname == "rpair" then "SKIP:radical-family"
    else if opname == "multinomial" then
      match (rest.trimAscii.toString.splitOn " ").map String.toNat? with
      | [some m, some n] =>
        let want := Multinomial.run m n
        if want == res then "ok" else "FAIL:model-says:" ++ want
      | _ => "bad-operands"
    else if res.startsWith "E:" then "SKIP:implementation-raised-" ++ res   -- the harness oracle reports it
    else if opname == "expand" then
      match Expr.parse rest with
      | none => "bad-operands"
      | some e =>
        match Expr.parse res with
        | none => "FAIL:unparsable-result:" ++ res
        | some r => (judge e r).toString
    else if opname == "pair" then
      match Expr.parseMany rest, res.splitOn " ;; " with
      | some [e1, e2], [s1, s2, fl] =>
        match Expr.parse s1, Expr.parse s2 with
        | some r1, some r2 => (judgePair e1 e2 r1 r2 (fl == "1")).toString
        | _, _ => "FAIL:unparsable-result:" ++ res
      | some [_, _], _ => "FAIL:unparsable-result:" ++ res
      | _, _ => "bad-operands"
    else "bad-op"
  | _ => "bad-line"

def main : IO Unit := drvMain handle
