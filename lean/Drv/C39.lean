import SymVerif.DrvCommon
import SymVerif.Model.Struct
/-! Driver for C39. Ops (operands are canonical dumps, see harness/sexp.h):
  `free <e>`                free_symbols(e)            → sorted dumps joined by `;`
  `has <e> <x>`             has_symbol(e, x)           → 0/1
  `atoms <kinds> <e>`       atoms<kinds…>(e), kinds ⊆ {S,F,I,N,K,P,M,A} → sorted dumps joined by `;`
  `fsyms <e>`               function_symbols(e) -/
open SymVerif SymVerif.Struct

def kindOf : Char → Option Kind
  | 'S' => some .symbol | 'F' => some .funcsym | 'I' => some .integer | 'N' => some .number
  | 'K' => some .constant | 'P' => some .pow | 'M' => some .mul | 'A' => some .add
  | _ => none

def handle (line : String) : String :=
  match line.splitOn " " with
  | "free" :: rest =>
    match Expr.parseMany (" ".intercalate rest) with
    | some [e] => ";".intercalate (freeSyms e)
    | _ => "bad-op"
  | "has" :: rest =>
    match Expr.parseMany (" ".intercalate rest) with
    | some [e, x] => if hasSymbol e x then "1" else "0"
    | _ => "bad-op"
  | "fsyms" :: rest =>
    match Expr.parseMany (" ".intercalate rest) with
    | some [e] => ";".intercalate (atoms [.funcsym] e)
    | _ => "bad-op"
  | "atoms" :: ks :: rest =>
    match ks.toList.mapM kindOf, Expr.parseMany (" ".intercalate rest) with
    | some kinds, some [e] => ";".intercalate (atoms kinds e)
    | _, _ => "bad-op"
  | "coeffs" :: _ => "SKIP:coeff is decided by the harness oracle (reconstruction by expand)"
  | _ => "bad-op"

def main : IO Unit := drvMain handle
