import SymVerif.DrvCommon
import SymVerif.Model.Funcs
/-! Driver for C08 (function constructors).  Op syntax: see harness/c08.cpp.
`trig|par <Fn> <arg> | <keys in map order>`, `inv <Fn> <arg> | <1/arg>`, `atan2 <num> <den> | <num/den>`,
`num <Fn> <args>`, `tab sin|cst|tct <i>`, `ora …` (answered SKIP). -/
open SymVerif SymVerif.Funcs

def showExc (r : Except Err Expr) : String :=
  match r with
  | .ok e => Expr.dumpCanon e
  | .error e => errStr e

def tabRow (keys : List String) (rows : List (Recipe × Recipe)) (i : Nat) : String :=
  match keys[i]?, rows[i]? with
  | some k, some (_, v) =>
    match recipeRat v with
    | some q => k ++ " => " ++ Expr.dump (ratToExpr q)
    | none => "SKIP:table-value-not-rational"
  | _, _ => "bad-op"

def handle (line : String) : String :=
  let parts := line.splitOn " | "
  let main := parts.headD ""
  let hint := if parts.length ≥ 2 then some (parts.getD 1 "") else
    (if line.endsWith " |" then some "" else none)
  let main := if main.endsWith " |" then (main.dropEnd 2).toString else main
  let ws := main.splitOn " "
  let fam := ws.headD ""
  if fam == "ora" then "SKIP:oracle-only" else
  if fam == "tab" then
    match ws with
    | [_, "sin", i] =>
      match i.toNat? with
      | some i => if i < 24 then (match sinTab i with | some s => s.render | none => "SKIP:table-value") else "bad-op"
      | none => "bad-op"
    | [_, "cst", i] =>
      match i.toNat? with
      | some i => tabRow Gen.TrigTables.inverseCstKeyDumps Gen.TrigTables.inverseCst i
      | none => "bad-op"
    | [_, "tct", i] =>
      match i.toNat? with
      | some i => tabRow Gen.TrigTables.inverseTctKeyDumps Gen.TrigTables.inverseTct i
      | none => "bad-op"
    | _ => "bad-op"
  else
  let hintExprs : Option (List Expr) := match hint with
    | some h => Expr.parseMany h
    | none => some []
  if fam == "atan2" then
    match Expr.parseMany (" ".intercalate (ws.drop 1)), hintExprs with
    | some [num, den], some hs => showExc (atan2Ctor num den hs.head?)
    | _, _ => "bad-op"
  else
  let fn := ws.getD 1 ""
  match Expr.parseMany (" ".intercalate (ws.drop 2)), hintExprs with
  | some args, some hs =>
    if fam == "trig" then
      match TrigFn.ofName fn, args with
      | some f, [a] =>
        match toLin a with
        | none => "SKIP:fragment"
        | some l =>
          if !l.wf then "SKIP:fragment" else
          match trigCtor hs trigFuel f l with
          | .ok r => r.render
          | .error e => errStr e
      | _, _ => "bad-op"
    else if fam == "par" then
      match parSpec fn, args with
      | some sp, [a] =>
        match toLin a with
        | none => "SKIP:fragment"
        | some l => showExc (parCtor hs sp l)
      | _, _ => "bad-op"
    else if fam == "inv" then
      match args with
      | [a] => showExc (invCtor fn a hs.head?)
      | _ => "bad-op"
    else if fam == "num" then
      match args with
      | [a] => if fn == "LeviCivita" || fn == "Max" || fn == "Min" then showExc (numCtorN fn args)
               else showExc (numCtor1 fn a)
      | _ => showExc (numCtorN fn args)
    else "bad-op"
  | _, _ => "bad-op"

def main : IO Unit := drvMain handle
