import SymVerif.DrvCommon
import SymVerif.Model.CApi
/-! Driver for C42 (validate mode): each input line is `<op line>\t<implementation output>`; the answer is `ok`,
`SKIP:<why>` or a description of the disagreement with the model.

* `vec/set/map/vint <history>`: the history is replayed on the container state machines of `Model/CApi.lean`
  and the printed results are compared.
* `capi <fn> …`: the harness reports the outcome of the C call and of the corresponding C++ call; the model
  (`callWrapped` = interpreter of the translated `CWRAPPER_END`, or "no handler" for unguarded calls, decided
  from the translated table entry of `<fn>`) predicts the C outcome from the C++ outcome.
* `expr <operator> <kinds> …`: the core function used by the harness must be the one of the translated table.
-/
open SymVerif SymVerif.CApi SymVerif.Gen.CApi

def fieldsOf (out : String) : List (String × String) :=
  (out.splitOn " ; ").map fun f =>
    match f.splitOn "=" with
    | k :: rest => (k, "=".intercalate rest)
    | [] => ("", "")

def getF (fs : List (String × String)) (k : String) : String :=
  match fs.find? (fun p => p.1 == k) with
  | some p => p.2
  | none => ""

def elemStr (e : SExp) : String := SExp.toStr e

def parseVecOp (s : String) : Option VecOp :=
  match SExp.parseAll s with
  | some [.atom "push", e] => some (.push (elemStr e))
  | some [.atom "get", .atom n] => n.toNat?.map .get
  | some [.atom "set", .atom n, e] => n.toNat?.map (fun k => .set k (elemStr e))
  | some [.atom "erase", .atom n] => n.toNat?.map .erase
  | some [.atom "size"] => some .size
  | _ => none

def parseSetOp (s : String) : Option SetOp :=
  match SExp.parseAll s with
  | some [.atom "insert", e] => some (.insert (elemStr e))
  | some [.atom "find", e] => some (.find (elemStr e))
  | some [.atom "erase", e] => some (.erase (elemStr e))
  | some [.atom "size"] => some .size
  | some [.atom "all"] => some .all
  | _ => none

def parseMapOp (s : String) : Option MapOp :=
  match SExp.parseAll s with
  | some [.atom "insert", k, v] => some (.insert (elemStr k) (elemStr v))
  | some [.atom "get", k] => some (.get (elemStr k))
  | some [.atom "size"] => some .size
  | _ => none

def parseVIntOp (s : String) : Option VIntOp :=
  match s.splitOn " " with
  | ["push", v] => v.toInt?.map .push
  | ["get", n] => n.toNat?.map .get
  | _ => none

def cmp (expected got : String) : String :=
  if expected == got then "ok" else s!"diff: model says {expected}"

def parseThrown (cpp : String) : Option Thrown :=
  match cpp.splitOn ":" with
  | ["sym", cls, code] => code.toNat?.map (Thrown.sym cls)
  | "other" :: rest => some (.other (":".intercalate rest))
  | _ => none

def coreOk (f : CFun) (core : String) : Bool :=
  let c := if core.endsWith "()" then (core.dropEnd 2).toString else core
  c == "=" || f.refs.contains c || f.callees.any (fun x => x == c || x.endsWith ("__" ++ c))

def checkCapi (fname out : String) : String :=
  if out.startsWith "bad-op" then "SKIP:bad-op"
  else if out.startsWith "c=CRASH" then "SKIP:process died; the model has no such outcome (oracle reports it)"
  else match findFun fname with
  | none => s!"diff: {fname} is not in the translated C API table"
  | some f =>
    let fs := fieldsOf out
    let c := getF fs "c"
    let o := getF fs "out"
    let cpp := getF fs "cpp"
    let val := getF fs "val"
    let old := getF fs "old"
    let core := getF fs "core"
    if !coreOk f core then s!"diff: core function {core} is not among the callees of {fname} in the source"
    else
      let thrown := if cpp == "ok" then none else parseThrown cpp
      if cpp != "ok" && thrown.isNone then "diff: unparsable cpp field"
      else if f.ret == .code then
        if f.wrapped then
          -- CWRAPPER_BEGIN out = call; CWRAPPER_END
          let r := callWrapped old (match thrown with | none => Outcome.ok val | some e => .threw e)
          match r with
          | none => cmp "ESCAPE" c
          | some (code, v) => cmp s!"c={code} out={v}" s!"c={c} out={o}"
        else
          -- hand-written return codes (rational_set): only the range of the code is modelled
          if (excEnum.any (fun p => toString p.2 == c)) then "ok" else s!"diff: {c} is not a symengine_exceptions_t value"
      else
        match thrown with
        | none => cmp s!"c=- out={val}" s!"c={c} out={o}"
        | some _ =>
          if f.catchAll then cmp "c=- out=NULL" s!"c={c} out={o}"
          else if f.unguarded.any (fun x => x == core || x.endsWith ("__" ++ core)) then cmp "ESCAPE" c
          else "diff: the C++ call threw but the throwing callee is not in the unguarded part of the function"

def checkExpr (op kinds out : String) : String :=
  if out.startsWith "bad-op" then "SKIP:bad-op" else
  let fs := fieldsOf out
  let k := if kinds == "-" then "" else kinds
  match findExprOp op k with
  | none => s!"diff: Expression {op}({kinds}) is not in the translated table"
  | some o =>
    if !exprOpOk o then s!"diff: {op}({kinds}) does not forward to the intended core function (table says {o.core})"
    else if o.core != getF fs "core" then s!"diff: table says {o.core}, harness compared with {getF fs "core"}"
    else cmp (getF fs "e") (getF fs "r")

def handle (line : String) : String :=
  match line.splitOn "\t" with
  | [op, out] =>
    let verb := (op.splitOn " ").headD ""
    let body := (op.drop (verb.length + 1)).toString
    if verb == "capi" || verb == "capif" then
      checkCapi ((op.splitOn " ").getD 1 "") out
    else if verb == "expr" then
      checkExpr ((op.splitOn " ").getD 1 "") ((op.splitOn " ").getD 2 "") out
    else if verb == "vec" then
      match (body.splitOn ";").mapM parseVecOp with
      | none => "SKIP:bad-op"
      | some ops => cmp ("|".intercalate ((Vec.run [] ops).2.map showRes)) out
    else if verb == "set" then
      match (body.splitOn ";").mapM parseSetOp with
      | none => "SKIP:bad-op"
      | some ops => cmp ("|".intercalate (SetM.run [] ops).2) out
    else if verb == "map" then
      match (body.splitOn ";").mapM parseMapOp with
      | none => "SKIP:bad-op"
      | some ops => cmp ("|".intercalate (MapM.run [] ops).2) out
    else if verb == "vint" then
      match (body.splitOn ";").mapM parseVIntOp with
      | none => "SKIP:bad-op"
      | some ops => cmp ("|".intercalate ((VInt.run [] ops).2.map showRes)) out
    else "SKIP:unknown verb"
  | _ => "SKIP:malformed line"

def main : IO Unit := drvMain handle
