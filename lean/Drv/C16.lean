import SymVerif.DrvCommon
import SymVerif.Model.StrParse
/-! Driver for C16.  Ops (operands are canonical S-expression dumps, see harness/sexp.h):
  `str <e>`       the model of `e->__str__()`: `StrP.render (Expr.norm e)`.  The hypothesis of the C16 theorems
                  (`printable`) and their conclusion (the printed tokens re-parse to the laid-out tree) are evaluated
                  on every input; a failure is appended as `  !<reason>` and therefore shows up as a difference.
  `pr <e>`        print only (inputs outside the round-trip fragment): `StrP.render (Expr.norm e)`
  `pair <a> <b>`  `eq(a, b)` and both texts: `<0|1> <str a> | <str b>`
  `rt <e>`, `rtpw <seed>`   oracle-only ops of the harness (Piecewise is rebuilt from a seed): `SKIP:oracle-only`
  `names`         the printer's function-name table `Class=name,...` in TypeID order (checks the translator
                  against the real `init_str_printer_names()`)
Operands outside the modelled printing fragment (`StrP.printed`) give `SKIP:unmodelled`. -/
open SymVerif SymVerif.Expr SymVerif.StrP

def strOp (rest : String) (check : Bool) : String :=
  match Expr.parse rest with
  | none => "bad-op"
  | some e =>
    if !printed e then "SKIP:unmodelled" else
    let e' := norm e
    if !check then render e' else
    if !printable e' then render e' ++ "  !not-printable" else
    let t := layout e'
    let ts := flat t
    if !(WP t) then render e' ++ "  !not-WP" else
    match parseToks (4 * ts.length + 8) ts with
    | .ok t' => if t' == t then toksText ts else render e' ++ "  !reparse-differs"
    | .error _ => render e' ++ "  !reparse-error"

def pairOp (rest : String) : String :=
  match Expr.parseMany rest with
  | some [a, b] =>
    if !(printed a && printed b) then "SKIP:unmodelled" else
    let a' := norm a
    let b' := norm b
    s!"{if beq' a' b' then 1 else 0} {render a'} | {render b'}"
  | _ => "bad-op"

def namesLine : String :=
  let byCode := TC.table.filterMap fun (cls, _) =>
    (Gen.PrintNames.printNames.lookup cls).map fun nm => s!"{cls}={nm}"
  ",".intercalate byCode

def handle (line : String) : String :=
  if line == "names" then namesLine
  else if line.startsWith "str " then strOp (line.drop 4).toString true
  else if line.startsWith "pr " then strOp (line.drop 3).toString false
  else if line.startsWith "pair " then pairOp (line.drop 5).toString
  else if line.startsWith "rt " || line.startsWith "rtpw " then "SKIP:oracle-only"
  else "bad-op"

def main : IO Unit := drvMain handle
