import SymVerif.DrvCommon
import SymVerif.Model.CodecDrv
/-! Driver for C19 (certificate-checking mode); see Model/CodecDrv.lean for the op syntax. -/
def main : IO Unit := SymVerif.drvMain SymVerif.Codec.handleV
