import SymVerif.DrvCommon
import SymVerif.Model.RC
/-! Driver for C40 (certificate mode): each input line is `op<TAB>impl_output`.

* `T …` lines: `impl_output` is the reference-level trace the harness reconstructed from the real
  object graph: a program of model ops
    `c` / `c1,2`  construct (child handles)      `k5` copy        `m5` move
    `a1,2` assign dst,src    `w1,2` move-assign  `r5` reset       `d5` destroy
    `t5` rcp_from_this       `p5:0.2` copy of the stored member reached by path 0.2 from `*h5`
    `s5` steal
  interleaved with checkpoints `Q:<live>:<oid>=<use_count>,…` holding the *observed* `use_count()`
  of every tracked object.  The driver replays the program on `RC.step` and answers `ok` iff the run
  is legal and at every checkpoint the model's live set and counts equal the observed ones.
* `W …` lines: `impl_output` is `delta=<blocks>,<bytes> …` (heap growth of the measured repetition after
  all handles died); the model predicts no live object (`no_leak`), i.e. `delta=0,0`.
-/
open SymVerif SymVerif.RC

def natList (sep : String) (s : String) : Option (List Nat) :=
  if s.isEmpty then some [] else (s.splitOn sep).mapM (·.toNat?)

def parseOp (t : String) : Option Op :=
  let body := (t.drop 1).toString
  let two : Option (Nat × Nat) :=
    match body.splitOn "," with
    | [a, b] => do let x ← a.toNat?; let y ← b.toNat?; pure (x, y)
    | _ => none
  if t.startsWith "c" then (natList "," body).map .construct
  else if t.startsWith "k" then body.toNat?.map .copy
  else if t.startsWith "m" then body.toNat?.map .move
  else if t.startsWith "a" then two.map (fun p => .assign p.1 p.2)
  else if t.startsWith "w" then two.map (fun p => .moveAssign p.1 p.2)
  else if t.startsWith "r" then body.toNat?.map .reset
  else if t.startsWith "d" then body.toNat?.map .destroy
  else if t.startsWith "t" then body.toNat?.map .rcpFromThis
  else if t.startsWith "s" then body.toNat?.map .steal
  else if t.startsWith "p" then
    match body.splitOn ":" with
    | [h, path] => do let x ← h.toNat?; let p ← natList "." path; pure (.childCopy x p)
    | _ => none
  else none

def errStr : Err → String
  | .useAfterFree => "useAfterFree"
  | .doubleFree => "doubleFree"
  | .negativeCount => "negativeCount"
  | .badOp => "badOp"
  | .fuel => "fuel"

/-- the model's view at a checkpoint: live count and `(oid, count)` of the live objects -/
def snapshot (s : State) : Nat × List (Nat × Nat) :=
  (liveCount s, (List.range s.objs.length).filterMap (fun o => if isLive s o then some (o, cnt s o) else none))

def parsePairs (s : String) : Option (List (Nat × Nat)) :=
  if s.isEmpty then some [] else
  (s.splitOn ",").mapM (fun p =>
    match p.splitOn "=" with
    | [a, b] => do let x ← a.toNat?; let y ← b.toNat?; pure (x, y)
    | _ => none)

def showPairs (l : List (Nat × Nat)) : String :=
  ",".intercalate (l.map (fun p => s!"{p.1}={p.2}"))

def replay : State → Nat → List String → String
  | _, _, [] => "ok"
  | s, k, t :: ts =>
    if t.startsWith "Q:" then
      match t.splitOn ":" with
      | [_, n, pairs] =>
        match n.toNat?, parsePairs pairs with
        | some n, some ps =>
          let (ln, mp) := snapshot s
          if ln != n then s!"token {k}: live objects model={ln} observed={n}"
          else if mp != ps then s!"token {k}: counts model={showPairs mp} observed={showPairs ps}"
          else replay s (k + 1) ts
        | _, _ => s!"token {k}: bad checkpoint"
      | _ => s!"token {k}: bad checkpoint"
    else
      match parseOp t with
      | none => s!"token {k}: bad op {t}"
      | some op =>
        match step s op with
        | .error e => s!"token {k}: {t} -> {errStr e}"
        | .ok s1 => replay s1 (k + 1) ts

def handle (line : String) : String :=
  match line.splitOn "\t" with
  | [op, out] =>
    if out.startsWith "OPAQUE" then "SKIP opaque object class"
    else if out.startsWith "CRASH" || out.startsWith "HANG" || out.startsWith "E:" then "SKIP implementation failed (reported by the oracle)"
    else if op.startsWith "T " then
      replay init 0 ((out.splitOn " ").filter (fun t => !t.isEmpty))
    else if op.startsWith "W " then
      -- `no_leak`: with every handle dead the model has no live object
      match (out.splitOn " ").head? with
      | some "delta=0,0" => "ok"
      | _ => s!"model predicts delta=0,0 (no live object once all handles died); observed {out}"
    else "bad-op"
  | _ => "bad-line"

def main : IO Unit := drvMain handle
