import SymVerif.DrvCommon
import SymVerif.Model.Sets
/-! Driver for C27.  Op line: `<verb> <expr> [<point>]`, verbs `eval`, `contains`, `sup`, `inf`;
`<expr>` is an S-expression whose compound nodes are library operations (see harness/c27.cpp).
Output: the canonical dump of the resulting set (finite sets sorted numerically, Union / Intersection members
sorted by their dump), `T`/`F`, a number, or an error token.  `SKIP:…` = the model does not predict the library
here (call-depth budget exhausted, undefined behaviour, or a branch known to be wrong and not modelled). -/
open SymVerif SymVerif.Sets

def tokenize (s : String) : List String :=
  let step (acc : List String × String) (c : Char) : List String × String :=
    let (toks, cur) := acc
    if c == '(' || c == ')' || c == ' ' then
      let toks := if cur.isEmpty then toks else cur :: toks
      (if c == ' ' then toks else (String.singleton c) :: toks, "")
    else (toks, cur.push c)
  let (toks, cur) := s.foldl step ([], "")
  (if cur.isEmpty then toks else cur :: toks).reverse

def parseNum (s : String) : Option ENum :=
  if s == "oo" || s == "+oo" then some .pinf
  else if s == "-oo" then some .ninf
  else
    match s.splitOn "/" with
    | [a] => a.toInt?.map (fun n => .fin (n : Rat))
    | [a, b] => do
      let n ← a.toInt?
      let d ← b.toNat?
      if d == 0 then none else some (.fin (mkRat n d))
    | _ => none

def parseOC (s : String) : Option Bool :=
  if s == "o" then some true else if s == "c" then some false else none

def atomOf (s : String) : Option SetE :=
  if s == "empty" then some .empty else if s == "univ" then some .univ else if s == "reals" then some .reals
  else if s == "rats" then some .rats else if s == "ints" then some .ints else if s == "nats" then some .nats
  else if s == "nats0" then some .nats0 else none

/-- leading numbers of a token list -/
def takeNums : List String → List ENum → Option (List ENum × List String)
  | ")" :: rest, acc => some (acc.reverse, rest)
  | t :: rest, acc => do
    let q ← parseNum t
    takeNums rest (q :: acc)
  | [], _ => none

mutual
def parseExpr : Nat → List String → Option (Expr × List String)
  | 0, _ => none
  | fuel + 1, toks =>
    match toks with
    | "(" :: "iv" :: a :: b :: lo :: ro :: ")" :: rest => do
      let a ← parseNum a
      let b ← parseNum b
      let lo ← parseOC lo
      let ro ← parseOC ro
      pure (.iv a b lo ro, rest)
    | "(" :: "fs" :: rest => do
      let (nums, rest) ← takeNums rest []
      pure (.fs nums, rest)
    | "(" :: tag :: rest => do
      let (kids, rest) ← parseKids fuel rest []
      match tag, kids with
      | "un", ks => pure (.un ks, rest)
      | "in", ks => pure (.inn ks, rest)
      | "co", [u, a] => pure (.co u a, rest)
      | "mu", [a, b] => pure (.mu a b, rest)
      | "mi", [a, b] => pure (.mi a b, rest)
      | "mc", [a, b] => pure (.mc a b, rest)
      | "bd", [a] => pure (.bd a, rest)
      | "ir", [a] => pure (.ir a, rest)
      | "cl", [a] => pure (.cl a, rest)
      | _, _ => none
    | t :: rest => (atomOf t).map (fun s => (.lit s, rest))
    | [] => none
def parseKids : Nat → List String → List Expr → Option (List Expr × List String)
  | 0, _, _ => none
  | fuel + 1, toks, acc =>
    match toks with
    | ")" :: rest => some (acc.reverse, rest)
    | [] => none
    | _ => do
      let (e, rest) ← parseExpr fuel toks
      parseKids fuel rest (e :: acc)
end

def showNum : ENum → String
  | .ninf => "-oo"
  | .pinf => "oo"
  | .fin q => if q.den == 1 then toString q.num else s!"{q.num}/{q.den}"

def insertStr (x : String) : List String → List String
  | [] => [x]
  | y :: t => if x < y then x :: y :: t else y :: insertStr x t
def sortStr (l : List String) : List String := l.foldl (fun acc x => insertStr x acc) []

mutual
def dump : SetE → String
  | .empty => "empty"
  | .univ => "univ"
  | .reals => "reals"
  | .rats => "rats"
  | .ints => "ints"
  | .nats => "nats"
  | .nats0 => "nats0"
  | .iv a b lo ro => s!"(iv {showNum a} {showNum b} {if lo then "o" else "c"} {if ro then "o" else "c"})"
  | .fs l => "(fs" ++ String.join ((sortNum l).map (fun q => " " ++ showNum q)) ++ ")"
  | .un l => "(un " ++ " ".intercalate (sortStr (dumpL l)) ++ ")"
  | .inter l => "(in " ++ " ".intercalate (sortStr (dumpL l)) ++ ")"
  | .co u a => s!"(co {dump u} {dump a})"
def dumpL : List SetE → List String
  | [] => []
  | x :: t => dump x :: dumpL t
end

def showErr : Err → String
  | .assert => "E:Assert"
  | .notImpl => "E:NotImplemented"
  | .runtime => "E:Runtime"
  | .null => "E:Other"
  | .fuel => "SKIP:fuel"
  | .oob => "SKIP:oob"
  | .defect => "SKIP:defect"

def handle (line : String) : String :=
  match line.splitOn " " with
  | verb :: _ =>
    let toks := tokenize ((line.drop (verb.length + 1)).toString)
    match parseExpr 200 toks with
    | none => "bad-op"
    | some (e, rest) =>
      match evalE e with
      | .error err => showErr err
      | .ok s =>
        if verb == "eval" then (if rest.isEmpty then dump s else "bad-op")
        else if verb == "contains" then
          match rest with
          | [p] => match parseNum p with
                   | some q => if contains s q then "T" else "F"
                   | none => "bad-op"
          | _ => "bad-op"
        else if verb == "sup" || verb == "inf" then
          if !rest.isEmpty then "bad-op" else
          match supInf (verb == "sup") s with
          | .ok v => showNum v
          | .error err => showErr err
        else "bad-op"
  | [] => "bad-op"

def main : IO Unit := drvMain handle
