import SymVerif.DrvCommon
import SymVerif.Model.ParserSem
/-! Driver for C17 (certificate mode).  Input line: `parse <cx> <hex> <ast|->` TAB `<library output>`.
`hex` = the bytes handed to `SymEngine::parse(s, convert_xor = cx)`, `ast` = the syntax tree the harness generated
the string from (S-expression, see `astOfSExp`), or `-`.  The library output is `vsexp::dump(parse(s))` or an error
token.  Output `ok` iff
  * the model parser maps the bytes to exactly the generator's tree (when given), and
  * the library's answer is the value of that tree: integer literal = decimal value, float literal = a nearest
    double (`floatOk`), calls on plain symbols / named constants = the dump predicted from the translated name tables,
    arithmetic = accepted by the proven-sound normaliser (`judgeValue`);
`SKIP:<why>` outside the checkable fragment, otherwise `FAIL:<why>`. -/
open SymVerif SymVerif.Parser

def hexVal (c : Char) : Option Nat :=
  if '0' ≤ c ∧ c ≤ '9' then some (c.toNat - 48)
  else if 'a' ≤ c ∧ c ≤ 'f' then some (c.toNat - 87) else none

def unhex : List Char → Option Bytes
  | [] => some []
  | a :: b :: t => do
    let x ← hexVal a; let y ← hexVal b; let r ← unhex t
    pure (UInt8.ofNat (16 * x + y) :: r)
  | _ => none

def binOfName : String → Option BinOp
  | "+" => some .add | "-" => some .sub | "*" => some .mul | "/" => some .div | "^" => some .pow
  | "<" => some .lt | ">" => some .gt | "!=" => some .ne | "<=" => some .le | ">=" => some .ge | "==" => some .eq
  | "|" => some .or | "&" => some .and | "xor" => some .xor
  | _ => none

mutual
  def astOfSExp : SExp → Option PExpr
    | .list [.atom "i", .atom n] => n.toNat?.map .int
    | .list [.atom "fl", .atom t] => some (.float (stringToBytes t))
    | .list [.atom "s", .atom n] => some (.ident (stringToBytes n))
    | .list [.atom "n", e] => (astOfSExp e).map (.un .neg)
    | .list [.atom "p", e] => (astOfSExp e).map (.un .pos)
    | .list [.atom "not", e] => (astOfSExp e).map (.un .not)
    | .list (.atom "c" :: .atom f :: args) => (astOfSExps args).map (.call (stringToBytes f))
    | .list (.atom "pw" :: ps) => (astOfPairs ps).map .pwise
    | .list [.atom o, a, b] => do
      let o ← binOfName o; let x ← astOfSExp a; let y ← astOfSExp b
      pure (.bin o x y)
    | _ => none
  def astOfSExps : List SExp → Option (List PExpr)
    | [] => some []
    | a :: t => do let x ← astOfSExp a; let r ← astOfSExps t; pure (x :: r)
  def astOfPairs : List SExp → Option (List (PExpr × PExpr))
    | [] => some []
    | .list [a, c] :: t => do
      let x ← astOfSExp a; let y ← astOfSExp c; let r ← astOfPairs t
      pure ((x, y) :: r)
    | _ :: _ => none
end

def floatBits? (real : String) : Option Nat :=
  if real.startsWith "(D " && real.endsWith ")" && real.length == 20 then
    (Expr.parseHex64 ((real.drop 3).toString.take 16).toString).map (·.toNat)
  else none

def judgeFloat (t : Bytes) (real : String) (neg : Bool) : String :=
  match floatBits? real with
  | none => "FAIL:float-literal-not-a-double:" ++ real
  | some b =>
    let b' := if neg then b - 2 ^ 63 else b
    if neg && b < 2 ^ 63 then "FAIL:float-sign" else
    match floatOk t b' with
    | none => "SKIP:float-exponent-too-large"
    | some true => "ok"
    | some false => "FAIL:float-not-nearest"

/-- the library's answer `real` (a dump) against the tree -/
def judge (ast : PExpr) (real : String) : String :=
  match ast with
  | .int n => if real == toString n then "ok" else "FAIL:integer-literal-value:" ++ toString n
  | .un .neg (.int n) =>
    if real == toString (-(n : Int)) then "ok" else "FAIL:integer-literal-value:-" ++ toString n
  | .float t => judgeFloat t real false
  | .un .neg (.float t) => judgeFloat t real true
  | .ident s =>
    match expectIdent (bytesToString s) with
    | some d => if real == d then "ok" else "FAIL:identifier:" ++ d
    | none => "SKIP:identifier"
  | _ =>
    let viaNF : String :=
      match Expr.parse real with
      | none => "FAIL:unparsable-result"
      | some r => (judgeValue ast r).toString
    match ast with
    | .call f args =>
      match plainSyms? args with
      | some names =>
        match expectCall (bytesToString f) names with
        | some d => if real == d then "ok" else "FAIL:call-expected:" ++ d
        | none => viaNF
      | none => viaNF
    | _ => viaNF

def handle (line : String) : String :=
  match line.splitOn "\t" with
  | [opline, real] =>
    match opline.splitOn " " with
    | "parse" :: cx :: hex :: rest =>
      match unhex hex.toList with
      | none => "bad-hex"
      | some bytes =>
        let given : Option (Option PExpr) :=
          let a := " ".intercalate rest
          if a == "-" || a == "" then some none
          else match SExp.parseOne a with
            | some se => (astOfSExp se).map some
            | none => none
        match given with
        | none => "bad-ast"
        | some given =>
          let m := parseBytes bytes (cx == "1")
          match m with
          | .error .oob => "FAIL:model-out-of-bounds"
          | .error .fuel => "FAIL:model-fuel"
          | .error .parse =>
            if given.isSome then "FAIL:model-rejects-generated-string"
            else if real == "E:Parse" then "ok"
            else if real.startsWith "E:" then "SKIP:action-exception-before-syntax-error"
            else "FAIL:model-parse-error-but-library-accepts"
          | .ok ast =>
            match given with
            | some g => if !(g == ast) then "FAIL:model-tree-differs-from-generated-tree:" ++ showAst ast else
              match check ast with
              | .parseError => if real == "E:Parse" then "ok" else "FAIL:expected-ParseError-from-action"
              | .unknown => "SKIP:boolean-typing-unknown"
              | .ok _ =>
                if real == "E:Parse" then "FAIL:library-ParseError-on-valid-input"
                else if real.startsWith "E:" then "SKIP:action-exception:" ++ real
                else judge ast real
            | none =>
              match check ast with
              | .parseError => if real == "E:Parse" then "ok" else "FAIL:expected-ParseError-from-action"
              | .unknown => "SKIP:boolean-typing-unknown"
              | .ok _ =>
                if real == "E:Parse" then "FAIL:library-ParseError-on-valid-input"
                else if real.startsWith "E:" then "SKIP:action-exception:" ++ real
                else judge ast real
    | _ => "bad-op"
  | _ => "bad-line"

def main : IO Unit := drvMain handle
