import SymVerif.DrvCommon
import SymVerif.Model.Logic
/-! Driver for C28.
`f <sexpr>` – build the recipe bottom-up through the modelled API, print the canonical dump.
`pw e<k>:<sexpr>;…` – `piecewise`.
`domc …` – oracle-only op of the harness (domain rule with non-integer FiniteSet elements, not modelled): `SKIP`.
sexpr := T | F | a<i> | n<i> | m<i> | x<c | x>=c | x<=c | x>c | x=c | x!=c | x@lo,hi | x#e,e,… | (and s…) | (or s…) | (xor s…) | (not s) | (nand s…) | (nor s…) | (xnor s…) -/
open SymVerif SymVerif.Logic

def tokenize (s : String) : List String :=
  ((s.replace "(" " ( ").replace ")" " ) ").splitOn " " |>.filter (· ≠ "")

def insInt (a : Int) : List Int → List Int
  | [] => [a]
  | b :: t => if a < b then a :: b :: t else if a == b then b :: t else b :: insInt a t

def inRange (c : Int) : Bool := -16 ≤ c && c < 48

/-- atoms over the distinguished symbol: x<c x>=c x<=c x>c x=c x!=c x@lo,hi x#e,e,… -/
def parseXAtom (t : String) : Option B :=
  let relAtom (kind : Nat) (neg : Bool) (cs : String) : Option B :=
    match cs.toInt? with
    | some c => if inRange c then some (.rel (8 + 3 * (c + 16).toNat + kind) neg) else none
    | none => none
  if t.startsWith "x<=" then relAtom 1 false (t.drop 3).toString
  else if t.startsWith "x>=" then relAtom 0 true (t.drop 3).toString
  else if t.startsWith "x!=" then relAtom 2 true (t.drop 3).toString
  else if t.startsWith "x<" then relAtom 0 false (t.drop 2).toString
  else if t.startsWith "x>" then relAtom 1 true (t.drop 2).toString
  else if t.startsWith "x=" then relAtom 2 false (t.drop 2).toString
  else if t.startsWith "x@" then
    match ((t.drop 2).toString.splitOn ",").mapM String.toInt? with
    | some [lo, hi] =>
      if inRange lo && inRange hi && lo < hi then some (.mem (4 + (lo + 16).toNat + 64 * (hi + 16).toNat)) else none
    | _ => none
  else if t.startsWith "x#" then
    match ((t.drop 2).toString.splitOn ",").mapM String.toInt? with
    | some l => if l.isEmpty || !l.all inRange then none else some (.fs (l.foldr insInt []))
    | none => none
  else none

def parseLeaf (t : String) : Option B :=
  if t == "T" then some .tt
  else if t == "F" then some .ff
  else if t.startsWith "x" then parseXAtom t
  else
    let k := (t.drop 1).toString
    if k.length == 0 || k.length > 2 then none else
    match k.toNat? with
    | none => none
    | some i =>
      if t.startsWith "a" then (if i < 8 then some (.rel i false) else none)
      else if t.startsWith "n" then (if i < 8 then some (.rel i true) else none)
      else if t.startsWith "m" then (if i < 4 then some (.mem i) else none)
      else none

def parseOpName (t : String) : Option Op :=
  if t == "and" then some .and else if t == "or" then some .or else if t == "xor" then some .xor
  else if t == "not" then some .not else if t == "nand" then some .nand else if t == "nor" then some .nor
  else if t == "xnor" then some .xnor else none

mutual
/-- parse one S-expression; fuel = number of tokens -/
def parseR : Nat → List String → Option (R × List String)
  | 0, _ => none
  | _ + 1, [] => none
  | fuel + 1, t :: ts =>
    if t == "(" then
      match ts with
      | [] => none
      | o :: ts' =>
        match parseOpName o with
        | none => none
        | some op =>
          match parseArgs fuel ts' with
          | none => none
          | some (ch, rest) => some (.node op ch, rest)
    else if t == ")" then none
    else (parseLeaf t).map (fun b => (R.leaf b, ts))
def parseArgs : Nat → List String → Option (List R × List String)
  | 0, _ => none
  | _ + 1, [] => none
  | fuel + 1, t :: ts =>
    if t == ")" then some ([], ts)
    else
      match parseR fuel (t :: ts) with
      | none => none
      | some (r, rest) =>
        match parseArgs fuel rest with
        | none => none
        | some (rs, rest') => some (r :: rs, rest')
end

def parseSexpr (s : String) : Option R :=
  let toks := tokenize s
  match parseR (2 * toks.length + 2) toks with
  | some (r, []) => some r
  | _ => none

def insStr (a : String) : List String → List String
  | [] => [a]
  | b :: t => if a < b then a :: b :: t else b :: insStr a t
def sortStr (l : List String) : List String := l.foldr insStr []

mutual
def dump : B → String
  | .tt => "T"
  | .ff => "F"
  | .rel i n =>
    if i < 8 then (if n then "n" else "a") ++ toString i
    else
      let j := i - 8
      let c : Int := ((j / 3 : Nat) : Int) - 16
      let op := if j % 3 = 0 then (if n then ">=" else "<") else if j % 3 = 1 then (if n then ">" else "<=")
                else (if n then "!=" else "=")
      "x" ++ op ++ toString c
  | .mem i =>
    if i < 4 then "m" ++ toString i
    else
      let j := i - 4
      "x@" ++ toString (((j % 64 : Nat) : Int) - 16) ++ "," ++ toString (((j / 64 : Nat) : Int) - 16)
  | .fs l => "x#" ++ ",".intercalate (l.map toString)
  | .and l => "(& " ++ " ".intercalate (sortStr (dumpL l)) ++ ")"
  | .or l => "(| " ++ " ".intercalate (sortStr (dumpL l)) ++ ")"
  | .xor l => "(^ " ++ " ".intercalate (sortStr (dumpL l)) ++ ")"
  | .not b => "(! " ++ dump b ++ ")"
def dumpL : List B → List String
  | [] => []
  | a :: l => dump a :: dumpL l
end

def parseBranch (s : String) : Option (Nat × R) :=
  match s.splitOn ":" with
  | [e, c] =>
    if e.startsWith "e" then
      match (e.drop 1).toString.toNat?, parseSexpr c with
      | some k, some r => some (k, r)
      | _, _ => none
    else none
  | _ => none

def dumpBranch (p : Nat × B) : String := "e" ++ toString p.1 ++ ":" ++ dump p.2

def handle (line : String) : String :=
  if line.startsWith "f " then
    match parseSexpr (line.drop 2).toString with
    | none => "bad-op"
    | some r =>
      match build r with
      | none => "SKIP"       -- several FiniteSet conjuncts in one logical_and (hash-order dependent), or a malformed `not`
      | some b => dump b
  else if line.startsWith "pw " then
    match ((line.drop 3).toString.splitOn ";").mapM parseBranch with
    | none => "bad-op"
    | some brs =>
      match brs.mapM (fun p => (build p.2).map (fun b => (p.1, b))) with
      | none => "SKIP"
      | some vec =>
        match piecewise vec with
        | .error .domain => "E:Domain"
        | .ok (.expr e) => "e" ++ toString e
        | .ok (.pw l) => "pw " ++ ";".intercalate (l.map dumpBranch)
  else if line.startsWith "domc " then "SKIP"   -- oracle-only family (FiniteSet elements pi, E, radicals, rationals)
  else "bad-op"

def main : IO Unit := drvMain handle
