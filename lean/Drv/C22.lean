import SymVerif.DrvCommon
import SymVerif.Model.MPoly
/-! Driver for C22.  Op lines:
  `<kind> add|sub|mul|eq <P> <Q>`, `<kind> neg|rt <P>`, `<kind> pow <P> <n>`, `<kind> eval <P> x0=3,x2=-5`
with `<kind>` = `mint` (Int coefficients) or `mexpr` (rational coefficients `a/b`).
A polynomial is `vars:x2,x0;terms:2,0:3|0,1:-1` (exponent vector `:` coefficient; the variable
vector may be in any order: the polynomial is built with `from_dict`).  Output: canonical polynomial
(variables ascending, terms sorted by exponent vector), an integer/rational, `true`/`false`, or `E:…`. -/
open SymVerif SymVerif.MPoly

def splitNonEmpty (s : String) (sep : String) : List String :=
  if s.isEmpty then [] else s.splitOn sep

def parseVar (s : String) : Option Nat :=
  if s.startsWith "x" then (s.drop 1).toString.toNat? else none

def parseRat (s : String) : Option Rat :=
  match s.splitOn "/" with
  | [a] => a.toInt?.map (fun n => (n : Rat))
  | [a, b] => do
    let n ← a.toInt?
    let d ← b.toNat?
    if d = 0 then none else some ((n : Rat) / (d : Rat))
  | _ => none

def showRat (q : Rat) : String :=
  if q.den = 1 then toString q.num else s!"{q.num}/{q.den}"

structure Coef (R : Type) where
  parse : String → Option R
  show_ : R → String

def intCoef : Coef Int := ⟨String.toInt?, toString⟩
def ratCoef : Coef Rat := ⟨parseRat, showRat⟩

def parseTerm {R} (C : Coef R) (s : String) : Option (Mono × R) :=
  match s.splitOn ":" with
  | [es, c] => do
    let e ← (splitNonEmpty es ",").mapM String.toNat?
    let c ← C.parse c
    pure (e, c)
  | _ => none

/-- raw `(variable vector, dictionary)` as written on the wire -/
def parseRawPoly {R} (C : Coef R) (s : String) : Option (List Var × Dict R) :=
  match s.splitOn ";" with
  | [vs, ts] =>
    if vs.startsWith "vars:" && ts.startsWith "terms:" then do
      let vars ← (splitNonEmpty (vs.drop 5).toString ",").mapM parseVar
      let terms ← (splitNonEmpty (ts.drop 6).toString "|").mapM (parseTerm C)
      pure (vars, terms)
    else none
  | _ => none

def showPoly {R} (C : Coef R) (p : Poly R) : String :=
  let vs := ",".intercalate (p.vars.map (fun v => s!"x{v}"))
  let ts := "|".intercalate ((sortTerms p.dict).map (fun kc =>
    ",".intercalate (kc.1.map toString) ++ ":" ++ C.show_ kc.2))
  s!"vars:{vs};terms:{ts}"

def showErr : Err → String
  | .oob => "E:oob"
  | .missing => "E:missing"

def showRes {R} (C : Coef R) : Except Err (Poly R) → String
  | .ok p => showPoly C p
  | .error e => showErr e

def parseAssign {R} (C : Coef R) (s : String) : Option (List (Var × R)) :=
  (splitNonEmpty s ",").mapM (fun t =>
    match t.splitOn "=" with
    | [v, x] => do
      let v ← parseVar v
      let x ← C.parse x
      pure (v, x)
    | _ => none)

section
variable {R : Type} [Add R] [Sub R] [Mul R] [Neg R] [Zero R] [One R] [DecidableEq R]

def mkPoly (C : Coef R) (s : String) : Option (Except Err (Poly R)) :=
  (parseRawPoly C s).map (fun vd => fromDict vd.1 vd.2)

def bin (C : Coef R) (f : Poly R → Poly R → Except Err (Poly R)) (a b : String) : String :=
  match mkPoly C a, mkPoly C b with
  | some (.ok p), some (.ok q) => showRes C (f p q)
  | some (.error e), _ => showErr e
  | _, some (.error e) => showErr e
  | _, _ => "bad-op"

def handleKind (C : Coef R) : List String → String
  | ["add", a, b] => bin C addPoly a b
  | ["sub", a, b] => bin C subPoly a b
  | ["mul", a, b] => bin C mulPoly a b
  | ["eq", a, b] =>
    match mkPoly C a, mkPoly C b with
    | some (.ok p), some (.ok q) => toString (polyEq p q)
    | some (.error e), _ => showErr e
    | _, some (.error e) => showErr e
    | _, _ => "bad-op"
  | ["neg", a] =>
    match mkPoly C a with
    | some (.ok p) => showPoly C (negPoly p)
    | some (.error e) => showErr e
    | none => "bad-op"
  | ["rt", a] =>   -- from_dict, as_symbolic, from_basic: the model of the round trip is the identity
    match mkPoly C a with
    | some r => showRes C r
    | none => "bad-op"
  | ["pow", a, n] =>
    match mkPoly C a, n.toNat? with
    | some (.ok p), some n => showRes C (powPoly p n)
    | some (.error e), _ => showErr e
    | _, _ => "bad-op"
  | ["eval", a, asg] =>
    match mkPoly C a, parseAssign C asg with
    | some (.ok p), some vals =>
      match evalPoly p vals with
      | .ok x => C.show_ x
      | .error e => showErr e
    | some (.error e), _ => showErr e
    | _, _ => "bad-op"
  | _ => "bad-op"
end

def handle (line : String) : String :=
  match line.splitOn " " with
  | "mint" :: rest => handleKind intCoef rest
  | "mexpr" :: rest => handleKind ratCoef rest
  | _ => "bad-op"

def main : IO Unit := drvMain handle
