import SymVerif.DrvCommon
import SymVerif.Model.Arith
/-! Driver for C03 (arithmetic smart constructors / canonical form).

Op lines (operands are canonical S-expression dumps, see harness/sexp.h):
  `add A B` `sub A B` `mul A B` `div A B` `pow A B` `neg A` `sqrt A` `cbrt A`
  `addn A B C…` `muln A B C…`          n-ary constructors
  `canon X`                            X = one node built *structurally* (possibly non-canonical at the
                                       top, children canonical): prints 1/0 = `Expr.canon`
  `o<anything>`                        oracle-only op (operands outside the modelled fragment): prints SKIP
Output: canonical dump of the result (`Expr.dumpCanon`), `E:Assert` when the model's result is not
canonical (the assertion build throws there), or an error token. -/
open SymVerif SymVerif.Arith

def showErr : Err → String
  | .badCast => "E:badcast"
  | .assert => "E:Assert"
  | .fuel => "E:fuel"
  | .unsupported => "E:unsupported"
  | .runtime => "E:Runtime"
  | .notImpl => "E:NotImplemented"
  | .range => "E:range"

def showRes : R Expr → String
  | .ok r => if !canon r then "E:Assert" else if !strong r then "NOT-INV:result" else Expr.dumpCanon r
  | .error e => showErr e

def handle (line : String) : String :=
  let line := line.trimAscii.toString
  if line.startsWith "o" then "SKIP" else
  match line.splitOn " " with
  | [] => "bad-op"
  | op :: rest =>
    match Expr.parseMany (" ".intercalate rest) with
    | none => "bad-op"
    | some args =>
      let args := args.map normOrder
      -- every operand was produced by the real library: it must satisfy the model's invariant
      if op != "canon" && !(args.all inv) then "NOT-INV:operand" else
      -- results are computed for both dictionary iteration orders; a difference means the library's
      -- result depends on its hash order (no claim, reported as SKIP)
      let both (f : Bool → R Expr) : String :=
        let r0 := showRes (f false)
        let r1 := showRes (f true)
        if r0 == r1 then r0 else "SKIP:order-dependent " ++ r0 ++ " | " ++ r1
      match op, args with
      | "add", [a, b] => showRes (addE a b)
      | "sub", [a, b] => both (fun rv => subEO rv a b)
      | "mul", [a, b] => both (fun rv => mulEO rv a b)
      | "div", [a, b] => both (fun rv => divEO rv a b)
      | "pow", [a, b] => both (fun rv => powEO rv a b)
      | "neg", [a] => both (fun rv => negEO rv a)
      | "sqrt", [a] => both (fun rv => sqrtEO rv a)
      | "cbrt", [a] => both (fun rv => cbrtEO rv a)
      | "addn", l => showRes (addN l)
      | "muln", l => both (fun rv => mulNO rv l)
      | "canon", [x] => if canon x then "1" else "0"
      | _, _ => "bad-op"

def main : IO Unit := drvMain handle
