import SymVerif.DrvCommon
import SymVerif.Model.EvalDrv
/-! Driver for C12 (certificate mode): input `op<TAB>impl-output`.
ops:  `ev <dump>`   eval_double / eval_double_single_dispatch / evalf(53, Real) of a closed tree
      `evc <dump>`  eval_complex_double: only acceptance (NotImplemented or not) is modelled
impl output: `v=<hex|E:…>;sd=<hex|E:…>;sp=<special-function table>;o=<dump in real iteration order>`.
The driver checks that `o` is the op's tree up to dictionary order, evaluates `o` with the translated
visitor table and the translated single-dispatch table at `Float`, and compares bit patterns. -/
open SymVerif SymVerif.EvalG

/-- tolerance in ulp between the model at `Float` and the implementation (bit-exact expected) -/
def tolUlp : Nat := 0

mutual
  /-- does the complex visitor accept every node of the tree? (kinds only) -/
  partial def cAccepts (e : Expr) : Bool :=
    let kinds := Gen.visitorGeneric.map (·.1) ++ Gen.visitorComplexExtra
    match e with
    | .int _ => kinds.contains "Integer"
    | .rat _ _ => kinds.contains "Rational"
    | .dbl _ => kinds.contains "RealDouble"
    | .cplx _ _ => kinds.contains "Complex"
    | .cdbl _ _ => kinds.contains "ComplexDouble"
    | .const n => ["pi", "E", "EulerGamma", "Catalan", "GoldenRatio"].contains n
    | .add c ts => cAccepts c && ts.all (fun p => cAccepts p.1 && cAccepts p.2)
    | .mul c ts => cAccepts c && ts.all (fun p => cAccepts p.1 && cAccepts p.2)
    | .pow b x => cAccepts b && cAccepts x
    | .app h args => (match Gen.visitorGeneric.find h with
        | some (.fn _) => true
        | _ => false) && args.all cAccepts
    | _ => false
end

def handle (line : String) : String :=
  match line.splitOn "\t" with
  | [op, impl] =>
    let (cmd, rest) := match op.splitOn " " with
      | c :: r => (c, " ".intercalate r)
      | [] => ("", "")
    match Expr.parse rest with
    | none => "bad-op"
    | some e =>
      let fs := parseFields impl
      if cmd == "evc" then
        match field fs "v" with
        | none => "no-v"
        | some v =>
          let ok := cAccepts e
          if ok == !(v.startsWith "E:") then "ok" else s!"complex-accept model={ok} impl={v}"
      else if cmd == "ev" then
        match field fs "o", field fs "v", field fs "sd", (field fs "sp").bind parseSpec with
        | some o, some v, some sd, some spec =>
          match Expr.parse o with
          | none => "bad-ordered-dump"
          | some eo =>
            if Expr.dumpCanon eo != Expr.dumpCanon e then "ordered-dump-is-a-different-tree" else
            let mv := evalG (mkCtx spec Gen.visitorReal (fun _ => none)) eo
            let ms := evalG (mkCtx spec Gen.tableSD (fun _ => none)) eo
            if !(agree tolUlp mv v) then s!"visitor model={showRes mv} impl={v}"
            else if !(agree tolUlp ms sd) then s!"table model={showRes ms} impl={sd}"
            else "ok"
        | _, _, _, _ => "bad-impl-output"
      else "bad-op"
  | _ => "bad-line"

def main : IO Unit := drvMain handle
