import SymVerif.DrvCommon
import SymVerif.Model.ExprHash
/-! Driver for C02.  Ops:
  `cmp <a> <b>`      `a.__cmp__(b)` as -1/0/1
  `less <a> <b>`     `RCPBasicKeyLess()(a, b)` as 0/1
  `sort <e1> … <en>` insert the operands into a `set_basic` in the given order; output the iteration
                     order as 0-based operand indices (an operand equivalent to an earlier one is dropped)
Operands outside the modelled fragment give `SKIP:unmodelled`. -/
open SymVerif SymVerif.Expr

def showCmp (c : Int) : String := if c == cmpBad then "E:badcast" else toString c

/-- insertion into a set of (index, key) ordered by `keyLess` on the key -/
def insertIdx (x : Nat × Expr) : List (Nat × Expr) → List (Nat × Expr)
  | [] => [x]
  | y :: t => if keyLess x.2 y.2 then x :: y :: t else if keyLess y.2 x.2 then y :: insertIdx x t else y :: t

def handle (line : String) : String :=
  let parsed (rest : String) (k : List Expr → String) : String :=
    match Expr.parseMany rest with
    | none => "bad-op"
    | some es =>
      if es.all modelled then
        let es' := es.map norm
        -- the hypotheses of the C02 theorems hold for what the harness sends (checked, not assumed)
        if es'.any (fun e => noNaN e && !(WF e)) then "E:notWF" else k es'
      else "SKIP:unmodelled"
  if line.startsWith "cmp " then
    parsed (line.drop 4).toString fun es =>
      match es with
      | [a, b] => showCmp (cmp a b)
      | _ => "bad-op"
  else if line.startsWith "less " then
    parsed (line.drop 5).toString fun es =>
      match es with
      | [a, b] => if keyLess a b then "1" else "0"
      | _ => "bad-op"
  else if line.startsWith "sort " then
    parsed (line.drop 5).toString fun es =>
      let idx := (List.range es.length).zip es
      let s := idx.foldl (fun acc x => insertIdx x acc) []
      ",".intercalate (s.map fun p => toString p.1)
  else if line.startsWith "ouniv " then "SKIP:oracle-only"
  else "bad-op"

def main : IO Unit := drvMain handle
