import SymVerif.DrvCommon
import SymVerif.Model.ExprHash
/-! Driver for C01.  Ops (operands are canonical S-expression dumps, see harness/sexp.h):
  `hash <e>`        16 hex digits of `Basic::hash()`
  `eq <a> <b>`      `eq(a, b)` as 0/1
  `pair <a> <b>`    `eq hashA hashB` in one line (the oracle's view of a construction-path pair)
  `opair …`, `ouniv …`  oracle-only ops of the harness: `SKIP:oracle-only`
  `tcodes`          the TypeID table `Name=code,...` (checks the translator against `type_code_name`)
Operands outside the modelled fragment give `SKIP:unmodelled`. -/
open SymVerif SymVerif.Expr

def withExprs (rest : String) (n : Nat) (k : List Expr → String) : String :=
  match Expr.parseMany rest with
  | none => "bad-op"
  | some es =>
    if es.length != n then "bad-op"
    else if es.all modelled then
      let es' := es.map norm
      -- the hypotheses of the C01 theorems hold for what the harness sends (checked, not assumed)
      if es'.any (fun e => noNaN e && !(WF e)) then "E:notWF" else k es'
    else "SKIP:unmodelled"

def handle (line : String) : String :=
  if line == "tcodes" then
    ",".intercalate (TC.table.map fun p => s!"{p.1}={p.2}")
  else if line.startsWith "hash " then
    withExprs (line.drop 5).toString 1 fun es =>
      match es with
      | [e] => hex64 (hash e)
      | _ => "bad-op"
  else if line.startsWith "eq " then
    withExprs (line.drop 3).toString 2 fun es =>
      match es with
      | [a, b] => if beq' a b then "1" else "0"
      | _ => "bad-op"
  else if line.startsWith "pair " then
    withExprs (line.drop 5).toString 2 fun es =>
      match es with
      | [a, b] => s!"{if beq' a b then "1" else "0"} {hex64 (hash a)} {hex64 (hash b)}"
      | _ => "bad-op"
  else if line.startsWith "opair " || line.startsWith "ouniv " then "SKIP:oracle-only"
  else "bad-op"

def main : IO Unit := drvMain handle
