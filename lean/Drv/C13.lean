import SymVerif.DrvCommon
import SymVerif.Model.EvalDrv
import SymVerif.Model.LambdaD
/-! Driver for C13 (certificate mode): input `op<TAB>impl-output`, one whole history per line.
op:    `hist I <cse> <inputs> | <dump> , <dump> …;C <hex>,<hex>…;…`
impl:  `I|<status>|<outputs in real iteration order>|<name=dump,…>|<reduced,…>;C|<bits,…>|<special table>;…`
The model (`LambdaD.init` / `LambdaD.call` over the translated `lambdaReal` table at `Float`) is replayed
on the same history; init statuses and every output bit pattern must coincide. -/
open SymVerif SymVerif.EvalG SymVerif.LambdaD

def tolUlp : Nat := 0

def cfgOf (spec : SpecTable) : Cfg Float :=
  { O := floatOps spec, defs := Gen.lambdaReal, cseFirst := Gen.lambdaSymbolCseFirst, clearsMap := Gen.lambdaInitClearsMap }

def trimS (s : String) : String := (s.trimAscii).toString

def parseDumps (s : String) : Option (List Expr) :=
  if (trimS s).isEmpty then some [] else (s.splitOn ",").mapM (fun d => Expr.parse (trimS d))

def parseRepl (s : String) : Option (List (String × Expr)) :=
  if (trimS s).isEmpty then some [] else
  (s.splitOn ",").mapM fun ent =>
    match ent.splitOn "=" with
    | [n, d] => (Expr.parse (trimS d)).map (fun e => (trimS n, e))
    | _ => none

def statusTok : Option Err → String
  | none => "ok"
  | some e => e.token

/-- replay one step; returns the new state or a complaint -/
def stepModel (S : State Float) (opStep implStep : String) : Except String (State Float) :=
  let o := trimS opStep
  match implStep.splitOn "|" with
  | ["I", status, outsO, repl, reduced] =>
    match o.splitOn "|" with
    | [head, outsC] =>
      match (trimS head).splitOn " " with
      | ["I", cse, ins] =>
        let insL := if ins == "-" then [] else ins.splitOn ","
        match parseDumps outsC, parseDumps outsO, parseRepl repl, parseDumps reduced with
        | some oc, some oo, some rp, some rd =>
          if oc.map Expr.dumpCanon != oo.map Expr.dumpCanon then .error "ordered outputs are different trees"
          else
            let cseArg := if cse == "1" then some (rp, rd) else none
            let (S', err) := init (cfgOf []) S insL oo cseArg
            if statusTok err == status then .ok S'
            else .error s!"init status model={statusTok err} impl={status}"
        | _, _, _, _ => .error "bad dumps in init step"
      | _ => .error "bad init head"
    | _ => .error "bad init step"
  | ["C", bitsS, sp] =>
    match parseSpec sp with
    | none => .error "bad special table"
    | some spec =>
      let xsS := trimS ((o.drop 1).toString)
      let xs := if xsS == "-" then some [] else (xsS.splitOn ",").mapM (fun h => (Expr.parseHex64 h).map Float.ofBits)
      match xs with
      | none => .error "bad call inputs"
      | some xs =>
        match call (cfgOf spec) S xs with
        | .error e => .error s!"call model error {e.token}"
        | .ok (S', outs) =>
          let implBits := if bitsS.isEmpty then [] else bitsS.splitOn ","
          if outs.length != implBits.length then .error "output count"
          else
            let bad := (outs.zip implBits).filter (fun p => !(agree tolUlp (.ok p.1) p.2))
            match bad with
            | [] => .ok S'
            | (m, i) :: _ => .error s!"call model={Expr.hex64 m.toBits} impl={i}"
  | _ => .error "bad impl step"

def replay : State Float → List (String × String) → Nat → String
  | _, [], _ => "ok"
  | S, (o, i) :: rest, k =>
    match stepModel S o i with
    | .ok S' => replay S' rest (k + 1)
    | .error msg => s!"step {k}: {msg}"

def handle (line : String) : String :=
  match line.splitOn "\t" with
  | [op, impl] =>
    if !(op.startsWith "hist ") then "bad-op" else
    let osteps := ((op.drop 5).toString).splitOn ";"
    let isteps := impl.splitOn ";"
    if osteps.length != isteps.length then s!"step count op={osteps.length} impl={isteps.length}"
    else replay State.fresh (osteps.zip isteps) 0
  | _ => "bad-line"

def main : IO Unit := drvMain handle
