import SymVerif.DrvCommon
import SymVerif.Model.EvalDrv
import SymVerif.Model.CSem
import SymVerif.Model.CRewrite
import SymVerif.Gen.CCodeNames
/-! Driver for C15 (certificate mode): input `op<TAB>impl-output`.
op:   `cc <c89|c99> <d|f> x=<hex>,y=<hex>,z=<hex> g=<bits|NA|ERR> <dump>`
impl: `v=<bits|E:..>;r=<tree in printing order with the trig rewrites applied>;s=<C code, \n escaped>`
Checks: (1) `r` is the op's tree up to container order and the modelled rewrites (else SKIP);
(2) `render (toC r)` is the implementation's string, character for character;
(3) if the model's tree is well formed for the C grammar, the independent parser reads the
implementation's string back to the same tree; (4) the independent C semantics evaluated at `Float`
reproduces what the gcc-compiled code returned. -/
open SymVerif SymVerif.EvalG SymVerif.CCode

def unescape (s : String) : String := s.replace "\\n" "\n"

def pcfg (flavor prec : String) : PCfg :=
  { flavor := if flavor == "c89" then .c89 else .c99, float := prec == "f",
    unevalParen := Gen.unevalParen, names := Gen.fnNames }

def exprSize (s : String) : Nat := s.length

def parseEnv (s : String) : String → Option Float := fun n =>
  ((s.splitOn ",").filterMap fun kv =>
    match kv.splitOn "=" with
    | [k, h] => (Expr.parseHex64 h).map (fun b => (k, Float.ofBits b))
    | _ => none).lookup n

def definesEnv (base : String → Option Float) : String → Option Float := fun n =>
  if n == "EulerGamma" then some (qToFloat true 57721566490153286060651209008240243 (10 ^ 35))
  else if n == "Catalan" then some (qToFloat true 91596559417721901505460351493238411 (10 ^ 35))
  else if n == "GoldenRatio" then some (qToFloat true 161803398874989484820458683436563811 (10 ^ 35))
  else base n

def handle (line : String) : String :=
  match line.splitOn "\t" with
  | [op, impl] =>
    match op.splitOn " " with
    | "cc" :: flavor :: prec :: envS :: gS :: rest =>
      match Expr.parse (" ".intercalate rest) with
      | none => "bad-op"
      | some e =>
        let fs := parseFields impl
        match field fs "r", field fs "s" with
        | some rS, some sS =>
          match Expr.parse rS with
          | none => "bad-r"
          | some r =>
            -- (1) the certificate
            match rwF (4 * exprSize rS + 16) e with
            | none => "SKIP:unmodelled-rewrite"
            | some r' =>
              if Expr.dumpCanon r' != Expr.dumpCanon r then "SKIP:unmodelled-rewrite" else
              let cfg := pcfg flavor prec
              match toC cfg r with
              | .error err =>
                if sS == err.token then "ok" else s!"printer error model={err.token} impl={sS.take 80}"
              | .ok c =>
                let s := unescape sS
                -- (2) exact string
                if render c != s then s!"render model={(render c).replace "\n" "\\n"} impl={sS}" else
                -- (3) parse back
                match lex s with
                | none => "lex-failed"
                | some toks =>
                  let parsed := cparse toks
                  if wf c && parsed != some (normML c) then "parse-mismatch: C grammar reads a different tree" else
                  -- (4) value of the C code under the independent semantics vs gcc
                  let g := (gS.drop 2).toString
                  if cfg.float || g == "NA" || g == "ERR" then "ok" else
                  match parsed with
                  | none => "parse-failed"
                  | some p =>
                    match cEval (floatOps []) (definesEnv (parseEnv envS)) p with
                    | .error _ => "ok"     -- special functions / out of the modelled literal range
                    | .ok val =>
                      let x := val.toD (floatOps [])
                      if agree 0 (.ok x) g then "ok" else s!"ceval model={Expr.hex64 x.toBits} gcc={g}"
        | _, _ => "bad-impl-output"
    | _ => "bad-op"
  | _ => "bad-line"

def main : IO Unit := drvMain handle
