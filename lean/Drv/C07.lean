import SymVerif.DrvCommon
import SymVerif.Model.C07Check
/-! Driver for C07 (certificate mode).  Input line: `op A B…<TAB>result`, operands and result as canonical
S-expression dumps.  Output: `ok` iff the proven checker `C07.accepts` accepts the result, `SKIP:<why>` when the
case is outside the checker's fragment (radical family `r…`, undefined operation), otherwise `FAIL:<why>`. -/
open SymVerif SymVerif.C07

def handle (line : String) : String :=
  match line.splitOn "\t" with
  | [opline, res] =>
    let opname := (opline.splitOn " ").headD ""
    let rest := (opline.drop (opname.length)).toString
    if opname.startsWith "r" then "SKIP:radical-family" else
    match Op.ofString opname with
    | none => "bad-op"
    | some op =>
      match Expr.parseMany rest with
      | none => "bad-operands"
      | some args =>
        match Expr.parse res with
        | none => "FAIL:unparsable-result:" ++ res
        | some r => (judge op args r).toString
  | _ => "bad-line"

def main : IO Unit := drvMain handle
