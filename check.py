#!/usr/bin/env python3
"""Entry point: check.py C07 [--tier quick|thorough] [--seed N] [--replay file]"""
import argparse
import os
import sys
from pathlib import Path

sys.path.insert(0, str(Path(__file__).resolve().parent))
from vlib import core  # noqa: E402


def main():
    ap = argparse.ArgumentParser()
    ap.add_argument("pid")
    ap.add_argument("--tier", default=os.environ.get("VERIF_TIER", "quick"), choices=["quick", "thorough"])
    ap.add_argument("--seed", default=None)
    ap.add_argument("--replay", default=None)
    a = ap.parse_args()
    sys.exit(core.run_check(a.pid, a.tier, a.seed, a.replay))


if __name__ == "__main__":
    main()
