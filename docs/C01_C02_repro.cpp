#include <symengine/basic.h>
#include <symengine/real_double.h>
#include <symengine/complex_double.h>
#include <symengine/functions.h>
#include <symengine/add.h>
#include <symengine/symbol.h>
#include <symengine/integer.h>
#include <symengine/matrices/identity_matrix.h>
#include <symengine/matrices/zero_matrix.h>
#include <iostream>
using namespace SymEngine;
int main()
{
    auto a = real_double(0.0), b = real_double(-0.0);
    std::cout << "eq(0.0,-0.0)=" << eq(*a, *b) << " samehash=" << (a->hash() == b->hash()) << "\n";
    auto c = complex_double(std::complex<double>(-0.0, 1.0)), d = complex_double(std::complex<double>(0.0, 1.0));
    std::cout << "cdbl eq=" << eq(*c, *d) << " samehash=" << (c->hash() == d->hash()) << "\n";
    RCP<const Basic> f0 = function_symbol("f", RCP<const Basic>(a)), f1 = function_symbol("f", RCP<const Basic>(b));
    RCP<const Basic> y = symbol("y");
    auto s0 = add(f0, y), s1 = add(f1, y);
    std::cout << "f(0.0)+y vs f(-0.0)+y: eq=" << eq(*s0, *s1) << " cmp=" << s0->__cmp__(*s1) << " samehash=" << (s0->hash() == s1->hash()) << "\n";
    auto i2 = identity_matrix(integer(2)), ix = identity_matrix(symbol("x"));
    try {
        std::cout << "cmp(I(2), I(x))=" << i2->__cmp__(*ix) << " cmp(I(x), I(2))=" << ix->__cmp__(*i2) << "\n";
    } catch (const std::exception &e) {
        std::cout << "cmp threw: " << e.what() << "\n";
    }
    auto z1 = zero_matrix(integer(1), integer(1)), z2 = zero_matrix(integer(1), symbol("t"));
    try {
        std::cout << "cmp(Z(1,1), Z(1,t))=" << z1->__cmp__(*z2) << " rev=" << z2->__cmp__(*z1) << "\n";
    } catch (const std::exception &e) {
        std::cout << "cmp threw: " << e.what() << "\n";
    }
    return 0;
}
