// C37: cse() rebuilds a user FunctionSymbol named "add" / "mul" / "pow" as the arithmetic operation.
// exit code 1 = defect present.
// g++ -std=c++11 -I/repo -I<build> c37_userfn.cpp <build>/symengine/libsymengine.a -lgmp
#include <symengine/basic.h>
#include <symengine/add.h>
#include <symengine/functions.h>
#include <symengine/symbol.h>
#include <iostream>
using namespace SymEngine;
int main()
{
    RCP<const Basic> x = symbol("x"), y = symbol("y");
    RCP<const Basic> e = function_symbol("add", {x, y}); // a user function, not an addition
    vec_pair reps;
    vec_basic red;
    cse(reps, red, {e});
    std::cout << "cse([" << e->__str__() << "]) -> " << red[0]->__str__() << "\n";
    return eq(*red[0], *e) ? 0 : 1;
}
