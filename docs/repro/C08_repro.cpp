// C08 defects: minimal reproducers (observed on /repo HEAD c728f2c; expected in the comments).
// build: g++ -std=c++11 -I/repo -I/verif/.build/impl-assert -include /verif/harness/verif_hooks.h -DSYMENGINE_VERIF_HOOKS \
//        C08_repro.cpp /verif/.build/impl-assert/symengine/libsymengine.a -lgmp   (run under `timeout`)
#include <symengine/basic.h>
#include <symengine/functions.h>
#include <symengine/add.h>
#include <symengine/mul.h>
#include <symengine/pow.h>
#include <symengine/constants.h>
#include <symengine/complex.h>
#include <symengine/symbol.h>
#include <iostream>
using namespace SymEngine;
#define SHOW(label, expr)                                                                   \
    try {                                                                                   \
        std::cout << label << " = " << (expr)->__str__() << std::endl;                      \
    } catch (std::exception & e) {                                                          \
        std::cout << label << " throws " << e.what() << std::endl;                          \
    }
int main()
{
    RCP<const Basic> x = symbol("x"), i2 = integer(2), i3 = integer(3), i5 = integer(5);
    auto q = [](long n, long d) { return Rational::from_two_ints(n, d); };
    SHOW("N1  gamma(23/2)            [13749310575/2048*sqrt(pi)]", gamma(q(23, 2)));
    SHOW("N2  polygamma(0, 4/3)      [3 - pi/(2 sqrt3) - 3/2 log 3 - EulerGamma]", polygamma(zero, q(4, 3)));
    SHOW("N4  beta(1/2, 1/2)         [pi]", beta(q(1, 2), q(1, 2)));
    SHOW("N3  uppergamma(0, x)       [uppergamma(0, x)]", uppergamma(zero, x));
    SHOW("N5  ceiling(2 + pi)        [6]", ceiling(add(i2, pi)));
    SHOW("N9  floor(3/2 - 5/2 I)     [1 - 3 I]", floor(Complex::from_two_nums(*q(3, 2), *q(-5, 2))));
    SHOW("D8  sign(1 + I)            [sign(1 + I)]", sign(add(one, I)));
    SHOW("N12 atan2(0, x)            [atan2(0, x)]", atan2(zero, x));
    SHOW("N11 polygamma(0, -3/2)     [finite: 0.7031...]", polygamma(zero, q(-3, 2)));
    SHOW("N8  asin((sqrt3+1)/(2 sqrt2))  [5 pi/12]", asin(div(add(sqrt(i3), one), mul(i2, sqrt(i2)))));
    SHOW("N7  asin(sqrt(5-sqrt5)/8)  [unevaluated, 0.2093...]", asin(div(sqrt(sub(i5, sqrt(i5))), integer(8))));
    SHOW("N6  truncate(2 + x)        [must not split: x = -1/2 gives 1, not 2]", truncate(add(i2, x)));
    SHOW("N10 acot(-1)               [-pi/4 like eval_double(acot(-1.0))]", acot(minus_one));
    SHOW("N13 atan2(sqrt3, -1)       [2 pi/3]", atan2(sqrt(i3), minus_one));
    SHOW("N14 beta(-3/2, 1/2)        [0]", beta(q(-3, 2), q(1, 2)));
    // N15: zeta(2, 0) does not terminate (harmonic(-1, 2)); zeta(-1, -2) = 35/12 [-37/12]
    SHOW("N15 zeta(-1, -2)           [-37/12]", zeta(minus_one, integer(-2)));
    return 0;
}
