// C09 reproducer: three defects of SymEngine::expand.  Exit code = number of defects present (0 = all repaired).
//   g++ -std=c++11 -I/repo -I<build> c09_expand.cpp <build>/symengine/libsymengine.a -lgmp
// (build without WITH_SYMENGINE_ASSERT: with assertions D9c aborts in Add::Add, add.cpp:67)
#include <symengine/basic.h>
#include <symengine/add.h>
#include <symengine/mul.h>
#include <symengine/pow.h>
#include <symengine/visitor.h>
#include <symengine/parser.h>
#include <iostream>
using namespace SymEngine;

int main()
{
    int bad = 0;
    // D9c: the expanded base of the power is 2*x (not a sum); 4*x**2 becomes a key next to x**2
    {
        RCP<const Basic> e = parse("x**2 + (x - x*y + x*(1 + y))**2");
        RCP<const Basic> r = expand(e), want = parse("5*x**2");
        std::cout << "D9c  expand(" << *e << ") = " << *r << "   expected " << *want << "\n";
        if (!eq(*r, *want))
            bad++;
    }
    // D9b: not idempotent
    {
        RCP<const Basic> e = parse("(1 + 1/(x + y))**2");
        RCP<const Basic> r = expand(e), r2 = expand(r);
        std::cout << "D9b  expand(" << *e << ") = " << *r << "\n     expand of that  = " << *r2 << "\n";
        if (!eq(*r, *r2))
            bad++;
    }
    // D9: a sum is a key of the result
    {
        RCP<const Basic> e = parse("(1 + sqrt(1 + y))*(2 + sqrt(1 + y))");
        RCP<const Basic> r = expand(e), want = parse("3 + y + 3*sqrt(1 + y)");
        std::cout << "D9   expand(" << *e << ") = " << *r << "   expected " << *want << "\n";
        if (!eq(*r, *want))
            bad++;
    }
    return bad;
}
