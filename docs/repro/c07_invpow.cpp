// C07 reproducer: (x**-1)**b -> x**(-b) is applied to a constant base on the negative real axis.
#include <symengine/basic.h>
#include <symengine/add.h>
#include <symengine/mul.h>
#include <symengine/pow.h>
#include <symengine/integer.h>
#include <symengine/rational.h>
#include <symengine/eval_double.h>
#include <iostream>
using namespace SymEngine;
int main()
{
    RCP<const Basic> c = sub(sqrt(integer(2)), integer(2)); // -0.5857...
    RCP<const Basic> A = pow(c, integer(-1));               // 1/c = -1.7071...
    RCP<const Basic> R = pow(A, rational(1, 2));            // sqrt(1/c), principal value +1.3066 i
    std::complex<double> a(eval_double(*A), 0.0), r = eval_complex_double(*R); // A is a real number
    std::cout << "A = " << A->__str__() << " = " << a << "\n";
    std::cout << "pow(A, 1/2) = " << R->__str__() << " = " << r << "\n";
    std::cout << "principal sqrt of the value of A = " << std::sqrt(a) << "\n";
    return std::abs(r - std::sqrt(a)) < 1e-9 ? 0 : 1;
}
