// C36: four defects found by the C36 check.  Prints one line per defect; exit code = number present.
// g++ -std=c++11 -I/repo -I<build> c36_defects.cpp <build>/symengine/libsymengine.a -lgmp
#include <symengine/basic.h>
#include <symengine/add.h>
#include <symengine/mul.h>
#include <symengine/pow.h>
#include <symengine/functions.h>
#include <symengine/symbol.h>
#include <symengine/constants.h>
#include <symengine/complex.h>
#include <symengine/eval_double.h>
#include <symengine/subs.h>
#include <iostream>
using namespace SymEngine;
int main()
{
    int bad = 0;
    RCP<const Basic> x = symbol("x"), y = symbol("y");
    RCP<const Basic> half = Rational::from_two_ints(*integer(1), *integer(2));
    {
        // 1. as_numer_denom(sqrt(x/(y-3))) = sqrt(x)/sqrt(y-3): differs at x = 1, y = 1
        RCP<const Basic> e = pow(div(x, sub(y, integer(3))), half), n, d;
        as_numer_denom(e, outArg(n), outArg(d));
        map_basic_basic pt;
        pt[x] = integer(1);
        pt[y] = integer(1);
        std::complex<double> a = eval_complex_double(*e->subs(pt)), b = eval_complex_double(*div(n, d)->subs(pt));
        bool differs = std::abs(a - b) > 1e-9;
        std::cout << "as_numer_denom(" << e->__str__() << ") = " << n->__str__() << " / " << d->__str__() << "  at x=y=1: "
                  << a << " vs " << b << (differs ? "  DEFECT" : "  ok") << "\n";
        bad += differs;
    }
    {
        // 2. as_real_imag(exp(I)) = (exp(I), 0): the "real part" is not real
        RCP<const Basic> e = exp(I), re, im;
        bool defect = false;
        try {
            as_real_imag(e, outArg(re), outArg(im));
            defect = std::abs(eval_complex_double(*re).imag()) > 1e-9;
            std::cout << "as_real_imag(exp(I)) = (" << re->__str__() << ", " << im->__str__() << ")"
                      << (defect ? "  DEFECT" : "  ok") << "\n";
        } catch (const std::exception &ex) {
            std::cout << "as_real_imag(exp(I)) throws " << ex.what() << "  ok\n";
        }
        bad += defect;
    }
    {
        // 3. as_real_imag(cot(I)): imaginary part has the wrong sign (cot(I) = -I*coth(1))
        RCP<const Basic> e = cot(I), re, im;
        as_real_imag(e, outArg(re), outArg(im));
        double got = eval_complex_double(*im).real(), want = eval_complex_double(*e).imag();
        bool defect = std::abs(got - want) > 1e-9;
        std::cout << "as_real_imag(cot(I)): im = " << got << ", Im(cot(I)) = " << want << (defect ? "  DEFECT" : "  ok")
                  << "\n";
        bad += defect;
    }
    {
        // 4. conjugate(y*sin(I*x)) builds a Mul with a Mul inside its dictionary
        //    (assertion mul.cpp:14 is_canonical with WITH_SYMENGINE_ASSERT)
        RCP<const Basic> r = conjugate(mul(y, sin(mul(I, x))));
        bool defect = false;
        if (is_a<Mul>(*r))
            for (auto &p : down_cast<const Mul &>(*r).get_dict())
                defect = defect || is_a<Mul>(*p.first);
        std::cout << "conjugate(y*sin(I*x)) = " << r->__str__() << (defect ? "  DEFECT (Mul key inside Mul)" : "  ok") << "\n";
        bad += defect;
    }
    return bad;
}
