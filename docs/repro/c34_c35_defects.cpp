// Minimal reproducers for the defects reported in docs/C34.md and docs/C35.md.
//   g++ -std=c++11 -I/repo -I/verif/.build/impl-assert -include /verif/harness/verif_hooks.h -DSYMENGINE_VERIF_HOOKS \
//       c34_c35_defects.cpp /verif/.build/impl-assert/symengine/libsymengine.a -lgmp
// Output on the unpatched tree (expected in brackets):
//   is_positive(I + x | x > 0)            = T   [I or F: the value 1 + I at x = 1 is not positive]
//   is_irrational(pi + E)                 = T   [I: open problem]
//   is_rational(pi + E)                   = F   [I]
//   is_real(I + I*x | x real)             = F   [I: the value at x = -1 is 0]
//   is_real(3*I*x | x real)               = F   [I: the value at x = 0 is 0]            (asserted by the test-suite)
//   is_real(1/x | x real)                 = T   [I: zoo at x = 0]
//   is_complex(1/x | x complex)           = T   [I: zoo at x = 0]
//   refine((x**3)**(1/3) | x real)        = abs(x)            [(x**3)**(1/3); at x = -2: 1 + 1.732*I vs 2]
//   refine(sign(I + x) | x > 0)           = 1                 [sign(I + x)]
#include <symengine/basic.h>
#include <symengine/test_visitors.h>
#include <symengine/assumptions.h>
#include <symengine/refine.h>
#include <symengine/logic.h>
#include <symengine/sets.h>
#include <symengine/functions.h>
#include <iostream>
using namespace SymEngine;
static const char *ts(tribool t)
{
    return is_true(t) ? "T" : is_false(t) ? "F" : "I";
}
int main()
{
    RCP<const Basic> x = symbol("x");
    RCP<const Number> I_ = Complex::from_two_nums(*integer(0), *integer(1));
    Assumptions pos({Gt(x, integer(0))});
    Assumptions real({reals()->contains(x)});
    Assumptions cplx({complexes()->contains(x)});
    std::cout << "is_positive(I + x | x > 0)            = " << ts(is_positive(*add(I_, x), &pos)) << "\n";
    std::cout << "is_irrational(pi + E)                 = " << ts(is_irrational(*add(pi, E))) << "\n";
    std::cout << "is_rational(pi + E)                   = " << ts(is_rational(*add(pi, E))) << "\n";
    std::cout << "is_real(I + I*x | x real)             = " << ts(is_real(*add(I_, mul(I_, x)), &real)) << "\n";
    std::cout << "is_real(3*I*x | x real)               = " << ts(is_real(*mul(integer(3), mul(I_, x)), &real)) << "\n";
    std::cout << "is_real(1/x | x real)                 = " << ts(is_real(*div(integer(1), x), &real)) << "\n";
    std::cout << "is_complex(1/x | x complex)           = " << ts(is_complex(*div(integer(1), x), &cplx)) << "\n";
    std::cout << "refine((x**3)**(1/3) | x real)        = "
              << *refine(pow(pow(x, integer(3)), Rational::from_two_ints(*integer(1), *integer(3))), &real) << "\n";
    std::cout << "refine(sign(I + x) | x > 0)           = " << *refine(sign(add(I_, x)), &pos) << "\n";
    return 0;
}
