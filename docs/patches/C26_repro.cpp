// Reproducer for the C26 defects (matrix expressions).  Build against any symengine build:
//   g++ -std=c++11 -I<src> -I<build> C26_repro.cpp <build>/symengine/libsymengine.a -lgmp
// Run with one argument 1..7 (some cases crash the process on the unpatched library).
#include <symengine/basic.h>
#include <symengine/integer.h>
#include <symengine/matrix_expressions.h>
#include <iostream>
using namespace SymEngine;
static const char *tb(tribool t)
{
    return is_true(t) ? "true" : is_false(t) ? "false" : "indeterminate";
}
static std::string sz(const MatrixExpr &m)
{
    auto s = size(m);
    return (s.first.is_null() ? "?" : s.first->__str__()) + "x" + (s.second.is_null() ? "?" : s.second->__str__());
}
int main(int argc, char **argv)
{
    auto i = [](long n) { return integer(n); };
    int k = argc > 1 ? atoi(argv[1]) : 1;
    auto A23 = immutable_dense_matrix(2, 3, {i(1), i(2), i(3), i(4), i(5), i(6)});
    auto N = immutable_dense_matrix(2, 2, {i(1), i(2), i(3), i(4)});
    auto X = matrix_symbol("X");
    try {
        if (k == 1) // expected 2x4, unpatched: 3x4 (the ZeroMatrix factor itself is returned)
            std::cout << "size(A(2x3) * Z(3x4)) = " << sz(*matrix_mul({A23, zero_matrix(i(3), i(4))})) << std::endl;
        if (k == 2) // expected a MatrixMul with scalar 2, unpatched: the bare identity (scalar lost)
            std::cout << "2 * I(3) is an IdentityMatrix: "
                      << is_a<IdentityMatrix>(*matrix_mul({i(2), identity_matrix(i(3))})) << std::endl;
        if (k == 3) // I o N = diag(1,4) is symmetric; unpatched answer: false
            std::cout << "is_symmetric(I o [[1,2],[3,4]]) = "
                      << tb(is_symmetric(*hadamard_product({identity_matrix(i(2)), N}))) << std::endl;
        if (k == 4) // unpatched: reads values_[3] of a 3-element vector (segfault / garbage)
            std::cout << "is_toeplitz([[1,2,3]]) = "
                      << tb(is_toeplitz(*immutable_dense_matrix(1, 3, {i(1), i(2), i(3)}))) << std::endl;
        if (k == 5) { // unpatched: null RCP dereference in check_matching_sizes
            auto r = matrix_add({matrix_mul({N, X}), N});
            std::cout << "N*X + N built, size " << sz(*r) << std::endl;
        }
        if (k == 6) { // unpatched, WITH_SYMENGINE_ASSERT: ConjugateMatrix(ConjugateMatrix(X)) is built
            auto r = conjugate_matrix(transpose(conjugate_matrix(X)));
            std::cout << "conj(transpose(conj(X))) is Transpose(X): "
                      << eq(*r, *transpose(X)) << std::endl;
        }
        if (k == 7) { // not patched (known finding): non-canonical DiagonalMatrix(0,0), assertion in debug builds
            auto r = matrix_add({diagonal_matrix({i(1), i(2)}), diagonal_matrix({i(-1), i(-2)})});
            std::cout << "D + (-D) is a ZeroMatrix: " << is_a<ZeroMatrix>(*r) << std::endl;
        }
    } catch (const std::exception &e) {
        std::cout << "exception: " << e.what() << std::endl;
    }
    return 0;
}
