// C45 defect 2: RealMPFR::rpowreal(RealDouble) tests the sign of the *exponent* (this) instead of the base:
// 2.0 ** RealMPFR(-1.5) throws "Result is complex" (without MPC), (-2.0) ** RealMPFR(0.5) returns NaN as a real.
#include <symengine/real_mpfr.h>
#include <symengine/real_double.h>
#include <symengine/pow.h>
#include <cstdio>
using namespace SymEngine;
int main()
{
    RCP<const Number> two = real_double(2.0), m = real_mpfr(mpfr_class("-1.5", 113));
    try {
        RCP<const Number> r = pownum(two, m);
        printf("2.0 ** -1.5 = %s\n", r->__str__().c_str());
    } catch (const std::exception &e) {
        printf("2.0 ** RealMPFR(-1.5) threw: %s   (expected 0.35355339...)\n", e.what());
    }
    RCP<const Number> r2 = pownum(real_double(-2.0), real_mpfr(mpfr_class("0.5", 113)));
    printf("(-2.0) ** RealMPFR(0.5) = %s   (expected: complex result / exception)\n", r2->__str__().c_str());
    return 0;
}
