// C14 defect 1: with symbolic CSE an *unused* input named like a CSE temporary (x0) shadows it.
// expected: sin(y+1)+cos(y+1) at y=0.5 = 1.0682321882717574 ; observed (unpatched): sin(x0)+cos(x0) with x0=100
#include <symengine/llvm_double.h>
#include <symengine/functions.h>
#include <symengine/add.h>
#include <cstdio>
using namespace SymEngine;
int main()
{
    RCP<const Basic> x0 = symbol("x0"), y = symbol("y");
    RCP<const Basic> e = add(sin(add(y, integer(1))), cos(add(y, integer(1))));
    double in[2] = {100.0, 0.5}, out;
    for (int cse = 0; cse < 2; cse++) {
        LLVMDoubleVisitor v;
        v.init({x0, y}, {e}, cse == 1, 0);
        v.call(&out, in);
        printf("cse=%d -> %.17g\n", cse, out);
    }
    return 0;
}
