// C14 defect 2: a visitor whose init() threw keeps pointers into the destroyed module in symbol_ptrs;
// the next init() on the same object uses them (use after free; SIGSEGV here).
#include <symengine/llvm_double.h>
#include <symengine/functions.h>
#include <symengine/add.h>
#include <cstdio>
using namespace SymEngine;
int main()
{
    RCP<const Basic> a = symbol("a"), b = symbol("b"), x = symbol("x"), y = symbol("y");
    LLVMDoubleVisitor v;
    try {
        v.init({a, b}, {add(a, symbol("unbound"))}, false, 0);
    } catch (const std::exception &e) {
        printf("first init threw: %s\n", e.what());
    }
    v.init({x, y}, {add(sin(x), y)}, false, 0); // expected: works like a fresh visitor
    double in[2] = {1.5, 2.5}, out;
    v.call(&out, in);
    printf("%.17g (expected %.17g)\n", out, 0.99749498660405445 + 2.5);
    return 0;
}
