// C45 defect 1: eval_mpfr computes asec(x) as asin(1/x) and acsc(x) as acos(1/x).
#include <symengine/real_mpfr.h>
#include <symengine/eval_mpfr.h>
#include <symengine/eval_double.h>
#include <symengine/functions.h>
#include <symengine/rational.h>
#include <cstdio>
using namespace SymEngine;
int main()
{
    RCP<const Basic> e1 = asec(integer(3)), e2 = acsc(integer(3));
    mpfr_class r(113);
    eval_mpfr(r.get_mpfr_t(), *e1, MPFR_RNDN);
    printf("asec(3): eval_mpfr %.17g  eval_double %.17g\n", mpfr_get_d(r.get_mpfr_t(), MPFR_RNDN), eval_double(*e1));
    eval_mpfr(r.get_mpfr_t(), *e2, MPFR_RNDN);
    printf("acsc(3): eval_mpfr %.17g  eval_double %.17g\n", mpfr_get_d(r.get_mpfr_t(), MPFR_RNDN), eval_double(*e2));
    return 0;
}
