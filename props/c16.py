import sys
from pathlib import Path
sys.path.insert(0, str(Path(__file__).resolve().parent.parent / "tools" / "extract"))
from c16_names import fn as c16_names          # noqa: E402
from c01_typecodes import fn as c01_typecodes  # noqa: E402  (Gen/TypeCodes.lean: type codes, argument kinds)

SPEC = dict(
    id="C16",
    level="proof",
    lean_props="SymVerif.Props.C16",
    driver="C16",
    harness="c16.cpp",
    translators=[c01_typecodes, c16_names],
    theorems=[
        "SymVerif.C16.names_roundtrip",
        "SymVerif.C16.names_not_parser_known",
    ],
    rule="",
    not_covered=[],
    assumptions=[],
    level_text="",
    level_note="",
    technique="",
    partial=[],
)
