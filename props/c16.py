import sys
from pathlib import Path
sys.path.insert(0, str(Path(__file__).resolve().parent.parent / "tools" / "extract"))
from c16_names import fn as c16_names          # noqa: E402
from c01_typecodes import fn as c01_typecodes  # noqa: E402  (Gen/TypeCodes.lean: type codes, argument kinds)

SPEC = dict(
    id="C16",
    level="proof",
    lean_props="SymVerif.Props.C16",
    driver="C16",
    harness="c16.cpp",
    translators=[c01_typecodes, c16_names],
    theorems=[
        # tables translated from strprinter.cpp / parser.cpp / parser.yy on every run
        "SymVerif.C16.names_roundtrip",
        "SymVerif.C16.names_not_parser_known",
        "SymVerif.C16.precEnum_expected",
        "SymVerif.C16.printer_constants",
        # the syntactic round trip
        "SymVerif.C16.render_eq",
        "SymVerif.C16.paren_sound",
        "SymVerif.C16.parse_flat",
        "SymVerif.C16.roundtrip_syntactic",
        "SymVerif.C16.neg_infty_pow_witness",
        # printing is a function of the value
        "SymVerif.C16.str_congr_partial",
        "SymVerif.C16.signed_zero_witness",
        "SymVerif.C16.C16_congr_full_false",
    ],
    rule="one op = one expression (canonical dump of an object built through the public API) printed by the real "
         "StrPrinter and by the model; distinct = distinct op lines; non-trivial = all. Tags: number / number-coef / "
         "integer-boundary (2**63, 2**64, 10**18..10**20 +-2 and random 18-20 digit integers in every operand position), number-base / number-exp / number-arg (integers, multi-limb integers, rationals, Gaussian rationals, doubles, "
         "complex doubles alone and in every operand position), double / double-boundary (bit patterns: random, short "
         "decimals, around powers of ten, 14-17 digit integers, the 1e-5 and 1e15 switches, ties at the 15th digit, "
         "subnormals, largest), arith / arith-float (random trees over the public constructors, depth <= 6), pow / "
         "pow-nested / pow-den / pow-neg (negative, rational, complex, float bases and exponents, nested powers, exp and "
         "sqrt forms), mul-den (numerator/denominator split), function (every printed function class the parser knows), "
         "function-kd-lc, relational, boolean, symbol-name, constant (pi E EulerGamma Catalan GoldenRatio oo -oo zoo nan), "
         "signed-zero / pair (explicit eq pairs), no-parser-name / reserved-name (print only), piecewise (oracle only)",
    not_covered=[
        "the tokenizer: the theorems start from the token list; the text of the tokens is what is compared with str(e)",
        "that the smart constructors applied along the parsed tree rebuild an eq expression (C04/C07): checked on the "
        "real library by the round-trip oracle, not proved",
        "Piecewise, sets, Contains, Derivative, Subs, polynomials, series, matrices: printing not modelled "
        "(Piecewise: oracle only); the set and interval texts are not in the parser's language",
        "symbols / function symbols whose name the parser reads as something else (e, E, I, pi, oo, inf, zoo, nan, True, "
        "False, EulerGamma, Catalan, GoldenRatio; function symbols named like a parser function): printed, not round-tripped",
        "classes the parser has no name for (Truncate, Conjugate, UnevaluatedExpr): printed, not round-tripped",
        "non-finite doubles (print as inf.0 / -nan.0, not parseable), the double -0.0, complex doubles with a zero part "
        "(re-parse to an exact 0 or flip the sign of the zero): print correspondence only",
        "a relational as operand of a relational (`z == x == y` re-parses with the other grouping)",
        "RealMPFR / ComplexMPC (library not configured with MPFR/MPC)",
    ],
    assumptions=[
        "std::ostream << double with precision 15 prints the correctly rounded %.15g text (glibc)",
        "the iteration order of Mul dictionaries / And-Or-Xor containers is RCPBasicKeyLess as modelled by "
        "Expr.norm (C01/C02 correspondence); PrinterBasicCmp is a strict weak order on the keys of a sum (C02)",
    ],
    level_text="Machine-checked proof (Lean 4) over an executable model of StrPrinter that reproduces str(e) character "
               "by character: for every printable expression the tree the printer lays out is well-parenthesised "
               "(paren_sound), and a precedence-climbing parser driven by the %left/%right table of parser.yy re-reads "
               "the printed tokens as exactly that tree (roundtrip_syntactic); every printed function name of a "
               "parser-known class is read back as that class (names_roundtrip, by decide on the translated tables); eq "
               "model objects print identically (str_congr_partial). The model is tied to the C++ by differential "
               "execution on generated expressions plus an independent oracle on the real library "
               "(eq(parse(str(e)), e), floats to 15 digits; eq expressions built along other paths print identically).",
    level_note="roundtrip_syntactic is stated for every sufficiently large fuel of the model parser (fuel is an artefact "
               "of the executable definition; the driver runs it with 4*tokens+8 and checks the conclusion on every "
               "input). The step from the parsed tree to an eq expression is not proved.",
    technique="two-stage printer model (layout with explicit parentheses, decision-free flattening); binding-power "
              "characterisation WP of trees that survive re-parsing; induction over trees for the parser (fuel "
              "monotonicity + loop invariant), induction over expressions for the printer's decisions; decide over "
              "translated name/precedence tables; exact decimal conversion of doubles",
    partial=[
        dict(full="SymVerif.C16.C16_congr_full", proved="SymVerif.C16.str_congr_partial",
             excluded="noSignedZero / noNaN (a double -0.0 or NaN anywhere: eq(0.0,-0.0) holds and the texts differ, "
                      "negation proved in C16_congr_full_false)"),
    ],
)
