import sys
from pathlib import Path
sys.path.insert(0, str(Path(__file__).resolve().parent.parent / "tools" / "extract"))
from c12_formulas import fn as c12_formulas  # noqa: E402
from c15_codegen import fn as c15_codegen  # noqa: E402

_T = "SymVerif.C15."
SPEC = dict(
    id="C15",
    level="partial",
    lean_props="SymVerif.Props.C15",
    driver="C15",
    harness="c15.cpp",
    translators=[c12_formulas, c15_codegen],
    validate_mode=True,
    theorems=[_T + n for n in [
        "uneval_precedence_loss", "scalarLit_not_int", "cEval_scalarLit", "rat_no_int_division", "rat_value",
        "powShape_value", "appShape_sign", "sign_shape_value", "recip_term_value",
        "parenIf_wf", "parenIf_level_true", "powShape_wf",
    ]],
    partial=["C15_full (def, not asserted): recursive value preservation over all trees, parser round trip "
             "(checked at run time on every generated case: cparse(lex s) = toC r, cEval = gcc)"],
    rule="random canonical trees over x,y,z (depth 1-4) over every node kind the C printers accept, printed with "
         "C89CodePrinter / C99CodePrinter in double and float precision; every emitted expression is compiled with gcc "
         "(-O0 -fno-builtin, batches) by the generator and run at the inputs; distinct = distinct op lines; non-trivial = all; "
         "tags <flavor><d|f>-d<depth>-<top kind>[-dbl|-dbl17|-intdiv], fixed-*",
    not_covered=[
        "the real C compiler and libm beyond what gcc 12 -O0 does on the generated cases",
        "cudacode / metalcode / jscode printers, half precision, MPFR leaves",
        "RewriteTrigVisitor rewrites whose argument needs the arithmetic canonicaliser (non-numeric exponents in a "
        "product, numeric bases): such cases are SKIPped by the driver, not trusted",
        "the order of Add terms (Basic::__cmp__, C02/C16) and of Mul / And / Or operands: reported by the harness",
        "parser round trip and the recursive value theorem (run-time checks only)",
    ],
    assumptions=[
        "gcc is available at /usr/bin/gcc for the compiled-code oracle (otherwise g=NA and only string equality is checked)",
        "the printing order of Add terms reported by the harness is what StrPrinter uses (std::map with PrinterBasicCmp)",
    ],
    level_text="partial",
    level_note="Tie: exact string equality of render(toC r) with C89/C99 printer output, hand-modelled printer functions "
               "pinned by hash.  Proved: literals (no integer division for Rationals), _print_pow shapes, Sign shape, "
               "coef*1/den reading, sufficiency of the parentheses of _print_pow under precedence consistency.  Tested "
               "on every case: the independent C parser reads the string back to the model's tree; the independent C "
               "semantics reproduces the gcc result bit for bit.",
    technique="Lean 4 printer model + independent C front end/semantics; certificate-mode correspondence; gcc oracle",
)
