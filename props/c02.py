import sys
from pathlib import Path
sys.path.insert(0, str(Path(__file__).resolve().parent.parent / "tools" / "extract"))
from c01_typecodes import fn as typecodes_translator  # noqa: E402

SPEC = dict(
    id="C02",
    level="proof",
    lean_props="SymVerif.Props.C02",
    driver="C02",
    harness="c02.cpp",
    translators=[typecodes_translator],
    theorems=[
        "SymVerif.C02.cmp_range",
        "SymVerif.C02.cmp_eq_iff_partial",
        "SymVerif.C02.cmp_antisymm_partial",
        "SymVerif.C02.cmp_zero_imp_identical",
        "SymVerif.C02.cmp_trans_partial",
        "SymVerif.C02.cmp_trans_le_partial",
        "SymVerif.C02.keyLess_irrefl_partial",
        "SymVerif.C02.keyLess_asymm_partial",
        "SymVerif.C02.keyLess_trans_partial",
        "SymVerif.C02.keyLess_incomparable_iff_eq_partial",
        "SymVerif.C02.insertSorted_perm_invariant",
        "SymVerif.C02.insertSorted_sorted",
        "SymVerif.C02.d3_witness",
        "SymVerif.C02.d1_witness",
        "SymVerif.C02.C02_full_false",
        "SymVerif.Expr.builtin_kind_none",
        "SymVerif.Expr.builtinCodes_nodup",
        "SymVerif.Expr.table_codes_nodup",
    ],
    partial=[
        dict(full="SymVerif.C02.C02_full", proved="cmp_eq_iff_partial, cmp_antisymm_partial, cmp_trans_partial, "
             "keyLess_*_partial, insertSorted_perm_invariant (cmp_range holds without exclusions)",
             excluded="noNaN (a NaN double anywhere: defect D3, negation proved in d3_witness / C02_full_false) and "
                      "noSignedZero (a double -0.0 anywhere: consequence of D1, negation proved in d1_witness)"),
    ],
    rule="ops: `cmp a b`, `less a b` (RCPBasicKeyLess), `sort e1..en` (set_basic iteration order as operand "
         "indices) on canonical dumps of real expressions built through the public API, compared with the Lean "
         "model; `ouniv seed n mode` rebuilds a universe of n expressions through the API and checks on the real "
         "objects: all pairs (range, cmp==0 <=> eq, antisymmetry, eq symmetric), all triples of the first 260 "
         "(transitivity), set_basic filled in three insertion orders (same iteration order, one element per "
         "eq-class). distinct = distinct op lines; non-trivial = all; tags: cmp-same-<class> (same type code, "
         "2/3 of the pairs), cmp-mixed-<class>, sort, ouniv-<mode>.",
    not_covered=[
        "classes outside the model (oracle only, no theorem): Dummy, Derivative, Subs, Piecewise, ConditionSet, "
        "ImageSet, FunctionWrapper, NumberWrapper, Tuple, polynomial classes, series, matrix expressions (new defect C02-matexpr-compare: "
        "their compare() calls arg->compare() and mis-casts mixed Integer/Symbol sizes), RealMPFR/ComplexMPC",
        "Intersection and Complement: modelled and proved about, no correspondence ops (harness/sexp.h cannot "
        "rebuild them)",
        "NaN doubles nested inside ordered containers (insertion-history dependent order, D3); top-level NaN "
        "doubles are in the correspondence",
        "Rational::compare's Integer branch (unreachable through __cmp__), Infty directions that are not Integers",
        "std::map / std::set red-black tree internals: the model is the sorted sequence, insertion = insertion "
        "sort; equal as long as RCPBasicKeyLess is a strict weak order on the keys (proved for the fragment)",
    ],
    assumptions=[
        "std::string operator< is lexicographic on unsigned bytes = Lean String `<` on code points (UTF-8 order "
        "preserving); names are valid UTF-8",
        "IEEE-754 binary64 == and < on non-NaN values = comparison of the sign-magnitude integer key (dblKey)",
    ],
    level_text="machine-checked proof (Lean 4) of the order axioms on the executable model for all well-formed "
               "expressions without NaN / -0.0 doubles; exact correspondence of the model with __cmp__, "
               "RCPBasicKeyLess and set_basic iteration order",
    technique="Lean 4 model mirroring every compare() + structural-induction proofs (antisymmetry, cmp=0 <=> eq, "
              "transitivity, strict weak order, permutation invariance of sorted insertion); translator for the "
              "TypeID numbering and class kinds; differential testing; exhaustive pair/triple oracle over "
              "API-built universes",
)
