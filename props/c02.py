import sys
from pathlib import Path
sys.path.insert(0, str(Path(__file__).resolve().parent.parent / "tools" / "extract"))
from c01_typecodes import fn as typecodes_translator  # noqa: E402

SPEC = dict(
    id="C02",
    level="proof",
    lean_props="SymVerif.Props.C02",
    driver="C02",
    harness="c02.cpp",
    translators=[typecodes_translator],
    theorems=[
    ],
    rule="",
    not_covered=[],
    assumptions=[],
)
