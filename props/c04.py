SPEC = dict(
    id="C04",
    level="proof",
    lean_props="SymVerif.Props.C04",
    driver="C04",
    harness="c04.cpp",
    theorems=[
        # Add: the whole safe class (every exact invariant operand that is not / does not contain a sum as a term)
        "SymVerif.C04.addE_comm", "SymVerif.C04.addE_assoc", "SymVerif.C04.addN_perm",
        "SymVerif.C04.addN_eq_foldl_addE", "SymVerif.C04.addTree_eq_addN", "SymVerif.C04.addTree_perm",
        "SymVerif.C04.addE_closed", "SymVerif.C04.addN_closed", "SymVerif.C04.addOperandOK_iff",
        "SymVerif.C04.addOperandOK_of_inv", "SymVerif.C04.addTree_perm_inv",
        # Mul: numeric-exponent fragment
        "SymVerif.C04.mulEO_comm", "SymVerif.C04.mulEO_assoc", "SymVerif.C04.mulNO_perm",
        "SymVerif.C04.mulTree_eq_mulNO", "SymVerif.C04.mulTree_perm", "SymVerif.C04.mulEO_closed",
        "SymVerif.C04.mulOperandOK_iff",
        # Mul: symbolic-exponent fragment (contains the numeric one)
        "SymVerif.C04.mulEO_comm_sym", "SymVerif.C04.mulEO_assoc_sym", "SymVerif.C04.mulNO_perm_sym",
        "SymVerif.C04.mulTree_eq_mulNO_sym", "SymVerif.C04.mulTree_perm_sym", "SymVerif.C04.mulEO_closed_sym",
        "SymVerif.C04.mulOperandOKS_iff",
        # max / min, and / or
        "SymVerif.C04.maxMinE_perm", "SymVerif.C04.maxMinTree_eq", "SymVerif.C04.maxMinTree_perm", "SymVerif.C04.andOr_perm", "SymVerif.C04.andOr_flatten", "SymVerif.C04.andOr_flatten2", "SymVerif.C04.C04_full_false",
        # the unrestricted statement is false (model level; the same inputs fail on the real library)
        "SymVerif.C04.witness_add_sum_as_term", "SymVerif.C04.witness_mul_rad_negbase",
        "SymVerif.C04.witness_mul_rad_perfectpower", "SymVerif.C04.witness_mul_rad_gaussian",
        "SymVerif.C04.witness_mul_mulbase", "SymVerif.C04.witness_mul_powbase", "SymVerif.C04.witness_mul_num_symexp",
        # key lemmas
        "SymVerif.AC.addCore_eq", "SymVerif.AC.repr_fromDict", "SymVerif.AC.mulF_eq", "SymVerif.AC.reprM_fromDict",
        "SymVerif.AC.datNew_atom", "SymVerif.AC.dok_ext", "SymVerif.AC.lk_upd", "SymVerif.AC.merge_comm",
        "SymVerif.AC.merge_assoc", "SymVerif.AC.merge_perm", "SymVerif.AC.numAdd_eq", "SymVerif.AC.numMul_eq",
        "SymVerif.AC.datNewS_atom", "SymVerif.AC.mulFS_eq", "SymVerif.AC.dokG_ext", "SymVerif.AC.lkG_upd",
        "SymVerif.AC.mergeG_comm", "SymVerif.AC.mergeG_assoc", "SymVerif.AC.mergeG_perm", "SymVerif.AC.expVal_inj",
        "SymVerif.AC.expVal_add", "SymVerif.AC.maxMinE_perm_aux", "SymVerif.C04L.andOr_perm_aux",
    ],
    partial=[
        "C04_full (all exact operands) is FALSE on the library and on the model that mirrors it: witness_* theorems. "
        "All theorems are stated on decidable operand predicates: addOperandOK (= exact, invariant, not c*(sum), no sum "
        "as a term of a sum - the complete class in which the oracle finds sums unique), mulOperandOK (= non-zero "
        "coefficient in Q(i), opaque bases - symbols, constants, function applications, sums - with exact numeric "
        "exponents) and mulOperandOKS (the same with arbitrary exponents that are addOperandOK summands: x**y, "
        "x**(1/2 - y), f(x)**(2*z) ...). Products inside mulOperandSafe but outside mulOperandOKS (radicals b**(p/q) "
        "of integers b >= 2 that are not perfect powers, zero factors) are covered by the exhaustive "
        "permutation x bracketing oracle only",
        "the Mul theorems carry the fuel bound `total number of dictionary entries + 6 <= defaultFuel (100000)`",
        "and/or: andOr_perm and andOr_flatten are statements about the C28 model of and_or (no FiniteSet-domain rule); this slice has no correspondence for and/or (oracle only)",
        "max/min: operands are exact real numbers, non-Max(Min) expressions and canonical Max(Min) nodes",
    ],
    level_note="proof on the model for sums of the whole safe class and for products of opaque bases with numeric "
               "or symbolic exponents: every binary bracketing of every permutation and the n-ary constructor give the same "
               "expression, for both dictionary iteration orders; the complement of the safe classes is a known "
               "finding (order-dependent normal forms) and is re-found by the oracle on every run",
    technique="executable Lean model (Model/Arith.lean + Model/AC.lean) with correspondence on tree dumps; both "
              "constructors factor as from_dict(repr a (+) repr b) where (+) is point-wise addition on sorted "
              "duplicate-free association lists; such a list is a finitely supported function key -> Q(i) "
              "(extensionality lemma dok_ext), so AC follows from AC of Q; independent oracle: dynamic programming "
              "over all sub-multisets = all permutations x all bracketings",
    rule="one op = `perm <kind> A1..An`, kind in add mul max min and or, 2 <= n <= 8; the operands are built through "
         "the real API; the harness evaluates ALL binary bracketings of ALL permutations (dynamic programming over "
         "sub-multisets, 3^n pairwise calls), the n-ary constructor on all (n<=5) or 120 sampled permutations and 40 "
         "mixed block groupings, and reports whether all results are structurally identical (dump, eq, hash, str). "
         "distinct = distinct op lines; non-trivial = all (every op has >= 2 operands). tags "
         "<family>/<kind>/n<k>: rad-plain (b**(p/q), b not a perfect power, exponents often summing to an integer), "
         "rad-perfectpower, rad-negbase, rad-ratbase, rad-gaussian, rad-symbolic (x, x*y, -x, x**y, ... as bases; "
         "rational and symbolic exponents), add-merge / add-cancel (coefficient merging, a + (-a), nested sums, Mul "
         "keys), mul-intexp / mul-symexp (a * a**-1, nested products), random, maxmin (nested Max/Min, duplicates, "
         "integers and rationals), logic (relationals, complements, nested And/Or)",
    not_covered=[
        "inexact numbers, Infty, NaN (not exact operands); max(Inf, x) vs max(1, Inf, x) differ but are outside the "
        "property's operand class",
        "products with numeric radicals b**(p/q) (b >= 2 not a perfect power) or a zero factor: oracle only; "
        "products outside mulOperandSafe: known finding",
        "and/or: no correspondence here (model and correspondence of and_or are C28's); oracle only",
        "order-dependence introduced by could_extract_minus inside trig constructors (operands are opaque here)",
        "more than 8 operands; exponents beyond the generator bounds of C03",
    ],
    assumptions=[
        "the model iterates Mul dictionaries in key order (both directions are evaluated), the library in hash "
        "order; inside the proved fragment the result is proved independent of the order, outside it agreement is "
        "tested by the correspondence",
    ],
    level_text="Lean proof that sums (whole safe class) and products (opaque bases, numeric or symbolic exponents) built from the same "
               "operands in any order and grouping, pairwise or n-ary, are the same expression on the executable "
               "model of add.cpp/mul.cpp, tied to /repo by differential correspondence; the property itself is "
               "evaluated exhaustively over permutations x bracketings on the real library each run",
)
