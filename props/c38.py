SPEC = dict(
    id="C38",
    level="proof",
    lean_props="SymVerif.Props.C38",
    driver="C38",
    harness="c38.cpp",
    theorems=[
        "SymVerif.C38.fdiff_exact",
        "SymVerif.C38.fdiff_inbounds",
        "SymVerif.C38.fdiff_inbounds_all",
        "SymVerif.C38.fdiff_row0_sum_one",
        "SymVerif.C38.fdiff_rowk_sum_zero",
        "SymVerif.C38.fdiff_unique",
        "SymVerif.C38.fdiff_empty",
        "SymVerif.C38.iterate_derivative_linear_mul",
        "SymVerif.C38.dv_old_succ",
        "SymVerif.C38.dv_new_succ",
        "SymVerif.C38.jLoop_spec",
    ],
    rule="calls generate_fdiff_weights_vector(grid, max_deriv, around) with rational grids; distinct = distinct "
         "(grid, centre, order) lines; non-trivial = every line; tags: stencil-central / stencil-onesided "
         "(equispaced integer grids, every order 0..size), rand-n<size> (random distinct rationals, size 1..7 "
         "(thorough 1..9), every order 0..size, centre on a node in 1/3 of the cases), order-beyond-size, "
         "dup (repeated grid points: result must be non-finite)",
    not_covered=[
        "symbolic grid points / symbolic centre (the C++ then builds unexpanded Basic trees; their value leans on "
        "C07, add/mul/div of symbols)",
        "floating-point (RealDouble) grids: rounding",
        "len_g*(max_deriv+1) >= 2^32 (unsigned wrap-around of len_w)",
        "the empty grid (grid[0] and weights[0] are out of range in the C++: precondition; the model returns "
        "Err.oob, the harness never calls the library with it)",
        "the arithmetic of symengine's Integer/Rational itself is covered only by the correspondence and the "
        "GMP oracle, not by a theorem (belongs to C05/C07)",
    ],
    assumptions=[
        "sub/mul/div of symengine Integer/Rational values are exact field operations on canonical rationals "
        "(checked on every generated case by the correspondence with core Lean Rat and by the GMP oracle)",
    ],
    level_text="Machine-checked proof (Lean 4 kernel, Mathlib polynomials and Lagrange interpolation) that the "
               "loop nest of generate_fdiff_weights_vector, modelled statement by statement over exact rationals "
               "with bounds-checked flat indexing j + k*len_g, returns for every non-empty grid of distinct "
               "rationals, every centre and every max_deriv a weight vector whose order-k row applied to the "
               "values of any polynomial of degree < len gives exactly its k-th derivative at the centre; no "
               "index leaves the vectors and no division by zero occurs.",
    level_note="Full statement proved for rational inputs (theorem fdiff_exact, no partial theorems). The tie to "
               "the C++ is the line-by-line correspondence of the exact weight vectors on generated grids plus "
               "an independent GMP oracle that evaluates the property on monomials on the real output. Symbolic "
               "and floating-point grids are outside the model.",
    technique="Lean 4 executable model (core Rat, Array with checked indices) + loop-invariant proof: after stage "
              "i, w[j + k*len] is the k-th derivative at the centre of the Lagrange basis polynomial L_{i,j} on "
              "nodes 0..i (Fornberg recurrences = Leibniz rule for a linear factor); final step by "
              "Lagrange.eq_interpolate. Correspondence harness with exact rational output; GMP mpq oracle.",
    partial=[],
)
