SPEC = dict(
    id="C38",
    level="proof",
    lean_props="SymVerif.Props.C38",
    driver="C38",
    harness="c38.cpp",
    theorems=[],
    rule="",
    not_covered=[],
    assumptions=[],
)
