from tools.extract.c17_syntax import fn as c17_syntax

SPEC = dict(
    id="C17",
    level="proof",
    lean_props="SymVerif.Props.C17",
    driver="C17",
    harness="c17.cpp",
    validate_mode=True,
    translators=[c17_syntax],
    run_timeout=2400,
    theorems=[
        # 1 tables regenerated from parser.yy / parser.cpp / tokenizer.re on every run
        "SymVerif.C17.numeric_base_decimal",
        "SymVerif.C17.table_conventional",
        "SymVerif.C17.genBP_conventional",
        "SymVerif.C17.grammar_shape",
        "SymVerif.C17.tokenizer_shape",
        "SymVerif.C17.funcs_conventional",
        "SymVerif.C17.constants_conventional",
        # 2 literals
        "SymVerif.C17.numeric_decimal",
        "SymVerif.C17.ofDigits_eq",
        "SymVerif.C17.numeric_decimal'",
        "SymVerif.C17.float_is_float",
        # 3 grammar: precedence climbing round trip on token level, for every printed form
        "SymVerif.Parser.mono_all",
        "SymVerif.Parser.parseExpr_doc",
        "SymVerif.Parser.parseArgs_docs",
        "SymVerif.Parser.parseTokens_doc",
        "SymVerif.C17.parse_pretty_tokens",
        "SymVerif.C17.parse_pretty_tokens'",
        # 3b tokenizer round trip and the string-level theorem
        "SymVerif.Parser.lexNumber_text",
        "SymVerif.Parser.lexTok_text",
        "SymVerif.Parser.lexAll_render",
        "SymVerif.Parser.lexAll_renderInput",
        "SymVerif.C17.parse_pretty",
        "SymVerif.C17.parse_pretty_cx",
        "SymVerif.Parser.doc_shape",
        "SymVerif.Parser.sepOK_tight",
        "SymVerif.C17.parse_pretty_tight",
        # 4 meaning of an accepted certificate
        "SymVerif.C17.denote_sound",
        "SymVerif.C17.certificate_sound",
        "SymVerif.NF.normT_sound",
        "SymVerif.NF.equivF_sound",
        # 5 float literals: an accepted bit pattern is a nearest double
        "SymVerif.C17.scaledVal_strictMono",
        "SymVerif.C17.nearestOk_bracket",
        "SymVerif.C17.float_literal",
        "SymVerif.C17.floatOk_nearest",
    ],
    rule="strings printed from generated syntax trees (tree first, then the string: minimal parentheses w.r.t. the "
         "conventional table written in harness/c17.cpp, plus random whitespace, redundant parentheses, leading zeros, "
         "** / ^ / @ spellings, implicit multiplication 2x and 2x**3); distinct = distinct op lines; non-trivial = all "
         "except tag trivial (none used). Tags: literal-int / literal-float (incl. leading zeros, 30-digit integers, "
         "overflow/underflow/halfway decimal literals), literal-implicit-mul, identifier (all 13 named constants), "
         "call-1/-2/-3 (every name of the conventional function table on symbols), call-boolean*, arith-exact* "
         "(ints, symbols, + - * / ** with constant integer exponents, unary signs, implicit mul: checked by the Lean "
         "certificate AND the exact GMP oracle at 3 rational points), arith-funcs-floats (double oracle), logic / "
         "logic-xor (convert_xor=false), piecewise, mutated (single-character edits, no tree: model vs library accept/"
         "reject). impl_stats count oracle points by kind.",
    not_covered=[
        "the LALR tables of parser.tab.cc and the DFA of tokenizer.cpp are generated code: tied by the differential "
        "run only (the theorems are about the re2c/bison *specifications* as translated)",
        "in parse_pretty / parse_pretty_tight the power operator is rendered as ** (the @ and ^ spellings, "
        "implicit-multiplication tokens whose identifier starts with e/E, and the Piecewise keyword are tested only)",
        "floating point: a float literal is checked to be a nearest double (exact integer arithmetic certificate, "
        "floatOk); arithmetic *between* floats is judged by the double oracle only (tolerance 1e-9)",
        "non-constant exponents, function applications with non-symbol arguments, relational/logical results: no Lean "
        "value certificate (SKIP:outside-nf-fragment), harness oracles only",
        "Piecewise is parsed by the model and compared structurally with the generator's tree, but is outside "
        "parse_pretty_tokens (Doc has no Piecewise constructor)",
        "local parser constants (the `constants` argument of parse) and WITH_MPFR (real_mpfr literals beyond 15 digits)",
        "evaluation blow-ups such as 9**9**9 (the parser evaluates eagerly): generated exponents are kept small",
    ],
    assumptions=[
        "harness/sexp.h dumps the stored fields of the result faithfully",
        "atoms (symbols, named constants, un-evaluated function applications on symbols) are interpreted by an arbitrary "
        "assignment of their dump strings; certificate_sound holds for every such assignment",
        "glibc strtod is correctly rounded (float-literal oracle, independent of fast_float and of the Lean check)",
    ],
    level_text="Machine-checked proof (Lean 4) over an executable model of the tokenizer specification, the grammar "
               "(precedence climbing driven by the %left/%right table translated from parser.yy on every run) and "
               "parse_numeric/parse_implicit_mul: the translated tables are the conventional ones (decide), every digit "
               "string incl. leading zeros is its decimal value, and for EVERY printed form with sufficient parentheses, "
               "rendered as a byte string with arbitrary whitespace, "
               "the parser (tokenizer + grammar) returns the tree the form stands for (usual precedence/associativity, unary minus below **, "
               "right-associative **, implicit multiplication). The library is tied to the model per generated input: "
               "model tree = generator tree, and the library's canonical result is accepted by a proven-sound "
               "certificate check (rational-function normal form; nearest-double check for float literals) against the "
               "conventional value of that tree; an independent GMP/libm/strtod oracle evaluates the same trees.",
    level_note="string-level round-trip theorem for all printed forms without Piecewise (arbitrary whitespace or none); the generated C++ tables are covered by differential execution; the value certificate covers the "
               "exact integer-exponent fragment",
    technique="Pratt/precedence-climbing model with fuel; fuel-monotonicity lemma; round-trip proof by mutual "
              "structural induction on printed forms with left-spine/right-capture invariants (LeftOK/NoCapture); "
              "decide over translated tables; certificate mode with NF normaliser soundness (wp-nf-c07) and an exact "
              "round-to-nearest-even bracket check",
    partial=[],
)
