SPEC = dict(
    id="C25",
    level="proof",
    lean_props="SymVerif.Props.C25",
    driver="C25",
    harness="c25.cpp",
    theorems=[],
    rule="whole CSR histories (constructor + calls) per op line",
    not_covered=[],
    assumptions=[],
)
