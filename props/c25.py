SPEC = dict(
    id="C25",
    level="proof",
    lean_props="SymVerif.Props.C25",
    driver="C25",
    harness="c25.cpp",
    theorems=[
        "SymVerif.C25.get_spec",
        "SymVerif.C25.set_spec",
        "SymVerif.C25.fromCoo_spec",
        "SymVerif.C25.sumDuplicates_spec",
        "SymVerif.C25.binop_spec",
        "SymVerif.C25.transpose_spec",
        "SymVerif.C25.conjugate_spec",
        "SymVerif.C25.scaleRows_spec",
        "SymVerif.C25.scaleCols_spec",
        "SymVerif.C25.diagonal_spec",
        "SymVerif.C25.isCanonical_of_canon",
        "SymVerif.C25.mk_of_canon",
        "SymVerif.C25.step_spec",
        "SymVerif.C25.history_canon",
        "SymVerif.C25.history_states_canon",
        "SymVerif.C25.zeroMat_canon",
        "SymVerif.C25.isCanonical_sound",
        "SymVerif.C25.mk_sound",
        "SymVerif.C25.matmat_unsorted_witness",
        "SymVerif.C25.matmat_scratch_oob_witness",
        "SymVerif.C25.exOps_ok",
    ],
    rule="one whole CSR history per op line (constructor from_coo / raw arrays / zero / jacobian, then calls "
         "set/get/add/sub/emul/T/conj/srows/scols/diag/chk, optionally a final matmat); distinct = distinct lines; "
         "non-trivial = every line (each builds at least one matrix and checks it against the dense oracle); tags: "
         "exh2-*/exh3-* exhaustive sparsity patterns x single set / reads / pairs, coo-dups (duplicates, zeros, "
         "cancelling duplicates), raw-* (constructor and static predicates on canonical and broken arrays), range / "
         "scale-zero (precondition violations raise), hist-small / hist-8x8 random histories, matmul, jacobian",
    level_text="every CSR state reachable by from_coo, set, csr_binop_csr_canonical (add/sub/elementwise mul), transpose, "
               "conjugate, csr_scale_rows/columns from in-range arguments is canonical and denotes the dense matrix of "
               "the dense algorithm; get and csr_diagonal return the dense entries; no vector is indexed out of range",
    technique="Lean 4 proofs about an executable model (checked array accesses), tied to the library by line-by-line "
              "correspondence of the raw (p, j, x) arrays after every call of generated histories, plus an independent "
              "dense-matrix oracle in the harness",
    partial=[
        "csr_matmat_pass1/2: modelled as is and compared with the library (arrays) and with the dense product (oracle); "
        "only refutation theorems on concrete witnesses (matmat_unsorted_witness, matmat_scratch_oob_witness). Its "
        "result rows are unsorted (finding C25-matmat-unsorted).",
        "CSRMatrix::jacobian: only the push loop is modelled (derivatives are inputs); correspondence + oracle on "
        "linear maps, no theorem",
    ],
    not_covered=[
        "entries other than Integer/Rational (symbolic entries: is_zero may be indeterminate, add/mul are not a field)",
        "from_coo / binary-op operands with coordinates outside the matrix (the library does not validate them: UB)",
        "csr_matmat with B.col > A.col (scratch vectors are sized A.col_: out-of-bounds in the library; the model "
        "returns Err.oob; never generated)",
        "unsigned wrap-around (more than 2^32 entries)",
        "std::sort instability in csr_sort_indices (only the sum of duplicates is observable; rational addition is "
        "commutative)",
        "CSRMatrix::eq, is_real, cwrapper entry points",
    ],
    assumptions=[
        "Integer/Rational add, sub, mul and is_zero of the library are exact rational arithmetic (checked on every "
        "generated case by the correspondence of the x arrays)",
        "conjugate is the identity on Integer/Rational",
    ],
)

SPEC.setdefault("level_note", "Trusted: Lean kernel; the correspondence harness and its dense rational oracle. csr_matmat is covered by correspondence/oracle and two refutation "
    "witnesses only (known finding C25-matmat-unsorted); jacobian only through its push loop; entries restricted to Integer/Rational, sizes <= 8x8.")
