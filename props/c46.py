SPEC = dict(
    id="C46",
    level="proof",
    lean_props="SymVerif.Props.C46",
    driver="C46",
    harness="c46.cpp",
    theorems=[
        "SymVerif.C46.lde_exact",
        "SymVerif.C46.lde_sound",
        "SymVerif.C46.lde_antichain",
        "SymVerif.C46.lde_complete",
        "SymVerif.C46.lde_covers",
        "SymVerif.C46.lde_guard",
        "SymVerif.C46.frozen_inbounds",
        "SymVerif.C46.lde_run",
        "SymVerif.C46.AInv.step",
        "SymVerif.C46.sim_main",
        "SymVerif.C46.exists_descent",
        "SymVerif.C46.order_spec",
    ],
    rule="calls homogeneous_lde(basis = {}, A) with integer matrices; distinct = distinct matrices; non-trivial = "
         "every line; tags: fixed (test-suite matrices, boundary shapes), exh-1x2 / exh-1x3 (every matrix with "
         "entries in [-2,2], thorough [-3,3]), rand-PxQ (entries uniform in [-3,3], 1/6 zeros; thorough [-4,4], "
         "up to 3x5), planted-PxQ (a random non-negative solution is planted so that the basis is not empty); "
         "impl_stats give the distribution of basis sizes and how often the brute-force box had to be capped",
    not_covered=[
        "termination of the while loop (the model takes fuel; C46_full, total correctness, is stated and not "
        "proved; every generated case finishes far below the driver's fuel of 5*10^6 iterations)",
        "a non-empty `basis` argument on entry (the C++ appends to it and also filters against it)",
        "matrices with p = 0 or q <= 1 (SYMENGINE_ASSERT precondition; model: Err.assert, never generated)",
        "non-Integer matrix entries (the C++ down_casts under an assertion)",
        "DenseMatrix / Integer arithmetic themselves (mul_matrix, addint, mulint): covered by the correspondence "
        "and the long-arithmetic oracle only",
    ],
    assumptions=[
        "DenseMatrix::mul_matrix / transpose / eq and Integer addint/subint/mulint/is_negative are exact integer "
        "operations (checked on every generated case by the correspondence and the oracle)",
    ],
    level_text="Machine-checked proof (Lean 4 kernel) over a statement-by-statement model of order / is_minimum / "
               "homogeneous_lde (stack P, Frozen table indexed by stack depth with bounds-checked accesses): for "
               "every well-formed integer matrix, whenever the main loop finishes, the returned list is "
               "duplicate-free and its members are exactly the minimal non-zero non-negative solutions of A x = 0 "
               "(soundness, antichain and Contejean-Devie completeness), and no access to Frozen / F is ever out "
               "of range. Termination is not proved (fuel).",
    level_note="Partial correctness is proved in full (lde_exact); the remaining gap to the property text is "
               "termination of the while loop, kept as `def C46_full`. The tie to the C++ is the exact "
               "correspondence of the sorted bases on generated and exhaustively enumerated small matrices, plus "
               "an oracle independent of the model (solution / antichain checks and brute-force enumeration of "
               "all minimal solutions inside a box).",
    technique="Lean 4 executable model; proof by refinement: (1) abstract algorithm on a list of (vector, frozen "
              "set) pairs with an 8-part invariant (pairwise separation of stack entries by a frozen coordinate, "
              "no basis element reachable from / dominated by a stack entry, every minimal solution in the basis "
              "or reachable from the stack, depth <= number of frozen components < q); key lemma: "
              "sum_i (m_i - t_i) <A t, A e_i> = -|A t|^2; (2) simulation of the Array/Frozen-table model by the "
              "abstract one. Correspondence harness + brute-force oracle.",
    partial=["SymVerif.C46.lde_exact", "SymVerif.C46.lde_sound", "SymVerif.C46.lde_antichain",
             "SymVerif.C46.lde_complete"],
)
