SPEC = dict(
    id="C39",
    level="proof",
    lean_props="SymVerif.Props.C39",
    driver="C39",
    harness="c39.cpp",
    theorems=[
        "SymVerif.C39.freeSymsF_eq_filter",
        "SymVerif.C39.freeSymsF_subset",
        "SymVerif.C39.hasSymbol_agrees_free",
        "SymVerif.C39.subs_bound_not_free",
        "SymVerif.C39.atoms_spec",
        "SymVerif.C39.dedup_nodup",
        "SymVerif.C39.atoms_nodup_sorted",
        "SymVerif.C39.freeSyms_sorted",
        "SymVerif.C39.freeSyms_spec",
        "SymVerif.C39.freeSyms_sound",
    ],
    partial=["coincidence lemma (evaluation depends only on free symbols) is not proved yet",
             "coeff(p, x, n) reconstruction is decided by the harness oracle (expand of sum coeff*x^n equals expand p), not by a theorem"],
    rule="random real expressions (depth 1-5; numbers of all exact kinds, symbols, constants, functions, function symbols, "
         "radicals, symbolic exponents, Derivative/Subs binders, ConditionSet/ImageSet) queried with free_symbols / has_symbol / "
         "atoms<K...> / function_symbols / coeff; distinct = distinct op lines; non-trivial = all (every op walks a tree of depth >= 1)",
    not_covered=["free_symbols(MatrixBase)", "coeff on non-expanded inputs (documented library behaviour: structural match only)"],
    assumptions=["vsexp::dump/parse (harness/sexp.h) faithfully transports the stored fields of the real objects"],
    level_text="Lean theorems over the executable model of get_args()-based walks (free_symbols incl. the Subs/ConditionSet/ImageSet "
               "binders, has_symbol, atoms<...>): exactness of free_symbols on binder-free trees, soundness with binders, agreement of "
               "has_symbol with free_symbols, exact characterisation of atoms; the model is tied to the code by running both on the "
               "same random trees every run, and an independent C++ reference (class accessors, no visitors) judges the real outputs.",
    level_note="Trusted: Lean kernel; the S-expression transport; the harness's reference implementations. coeff is oracle-only. "
               "The coincidence (semantic) form of the free-symbol statement is not proved.",
    technique="Lean 4 structural-induction proofs over an executable model + differential correspondence + independent oracle",
)
