T = "SymVerif.C32."
SPEC = dict(
    id="C32",
    level="partial",
    lean_props="SymVerif.Props.C32",
    driver="C32",
    harness="c32.cpp",
    theorems=[T + n for n in [
        "powModNat_eq", "isPrime_iff",
        "quotient_mod_spec", "quotient_mod_f_spec", "mod_inverse_spec",
        "fib_spec", "fib2_spec", "lucas_spec", "factorial_spec", "binomial_spec", "binomial_neg_spec",
        "divides_spec",
        "pfm_spec", "pfm_total", "totient_spec", "carmichael_spec", "mobius_spec", "mertens_spec",
        "multiplicative_order_spec",
        "crt_spec", "crt_least", "crt_total",
        "powermod_spec",
        "primitive_root_prime_partial",
        "jacobi_spec",
        "harmonic_spec", "harmonic_one_spec", "polygonal_spec",
    ]],
    partial=[
        "primitive_root_prime_partial: proved for prime moduli (least primitive root); p^k and 2p^k spec-compared",
        "nthroot_mod / nthroot_mod_list / is_nth_residue / is_quad_residue / powermod with rational exponent: "
        "spec-compared (exhaustive m<=200, n<=12 against brute-force Lean definitions) - no general proof",
    ],
    rule="one op = one call (nt) or one sweep of calls over an interval of the first argument (sw); spec/swspec ops "
         "compare the library with brute-force Lean definitions; distinct = distinct op lines; non-trivial = all",
    not_covered=[],
    assumptions=[],
)
