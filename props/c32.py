T = "SymVerif.C32."
SPEC = dict(
    id="C32",
    level="partial",
    lean_props="SymVerif.Props.C32",
    driver="C32",
    harness="c32.cpp",
    theorems=[T + n for n in [
        "powModNat_eq", "isPrime_iff",
        "quotient_mod_spec", "quotient_mod_f_spec", "mod_inverse_spec",
        "gcd_spec", "lcm_spec", "gcdExt_fst", "gcdExt_bezout_degenerate_partial",
        "fib_spec", "fib2_spec", "lucas_spec", "factorial_spec", "binomial_spec", "binomial_neg_spec",
        "divides_spec",
        "pfm_spec", "pfm_total", "totient_spec", "carmichael_spec", "mobius_spec", "mertens_spec",
        "multiplicative_order_spec",
        "crt_spec", "crt_least", "crt_total",
        "powermod_spec",
        "primitive_root_prime_partial",
        "jacobi_spec",
        "harmonic_spec", "harmonic_one_spec", "polygonal_spec",
        "is_nthroot_mod1_spec", "nthroot_zero_branch_partial",
    ]],
    partial=[
        "gcdExt_bezout_degenerate_partial: Bezout identity of gcd_ext proved on the degenerate branches (|a|=|b|, a=0, b=0); generic branch spec-compared + Bezout oracle",
        "primitive_root_prime_partial: proved for prime moduli (least primitive root); p^k and 2p^k spec-compared",
        "nthroot_zero_branch_partial: one branch (a = 0 mod p^k, all roots) of _nthroot_mod_prime_power proved sound and complete",
        "nthroot_mod / nthroot_mod_list / is_nth_residue / is_quad_residue / powermod with rational exponent: "
        "spec-compared (exhaustive m<=200, n<=12 against brute-force Lean definitions) - no general proof; proved pieces: "
        "is_nthroot_mod1_spec (solvability test for odd prime powers), nthroot_zero_branch_partial, crt_spec, powermod_spec",
    ],
    rule="one op = one call (nt) or one sweep of calls over an interval of the first argument (sw); spec/swspec ops "
         "compare the library with brute-force Lean definitions; distinct = distinct op lines; non-trivial = all",
    not_covered=[
        "n <= 0 for nthroot_mod/nthroot_mod_list/is_nth_residue (mp_scan1(0)); zero moduli / divisors (GMP division by zero kills the process)",
        "|n| >= 2^64 for every function that factors (symengine throws 'N too large to factor')",
        "unsigned wrap-around of exponents/counters (k, c, loop indices >= 2^32)",
        "exact single root of nthroot_mod/powermod when _sqrt_mod_tonelli_shanks is reached (random non-residue): flag + identity only",
        "exact output of factor_pollard_pm1_method / factor_pollard_rho_method (GMP random state): only '0 or a non-trivial divisor'",
        "HAVE_SYMENGINE_ARB / FLINT / ECM / PRIMESIEVE branches, boostmp / piranha / flint integer classes",
        "symbolic (non-numeric) arguments of primepi/primorial/polygonal_number/principal_polygonal_root",
        "general (all-arguments) proof of nthroot_mod(_list), powermod with rational exponent, is_nth_residue/is_quad_residue "
        "for composite or even moduli, primitive_root for p^k and 2p^k, primitive_root_list, quadratic_residues, bernoulli, "
        "gcd/lcm/gcd_ext, factor_*, nextprime, primepi, primorial, perfect_power: spec-compared only",
    ],
    assumptions=[
        "the sieve iterator yields exactly the primes <= limit (property C33); the model loops over all d <= limit",
        "GMP's mpz_* functions behave as documented (mpz_powm, mpz_invert, mpz_gcdext, mpz_root, mpz_jacobi, ...)",
        "the model is the code with docs/C32_fix_ntheory.patch applied (D-A floor-mod in the 2^2 branch, D-B reduction "
        "of listed roots modulo 2^k, D-C ceiling square root in Lehman's method)",
    ],
    level_text="partial",
    level_note="28 functions proved against Mathlib definitions for all arguments; the modular-root family is "
               "spec-compared exhaustively (m<=200, n<=12) plus random structured moduli through defining identities",
    technique="Lean 4 model mirrored from ntheory.cpp + Mathlib theorems; correspondence harness with independent "
              "GMP/brute-force oracle; brute-force Lean definitions (spec ops)",
)
