SPEC = dict(
    id="C32",
    level="partial",
    lean_props="SymVerif.Props.C32",
    driver="C32",
    harness="c32.cpp",
    theorems=[
    ],
    rule="one op = one call (nt) or one sweep of calls over an interval of the first argument (sw); spec/swspec ops "
         "compare the library with brute-force Lean definitions; distinct = distinct op lines; non-trivial = all",
    not_covered=[],
    assumptions=[],
)
