SPEC = dict(
    id="C33",
    level="proof",
    lean_props="SymVerif.Props.C33",
    driver="C33",
    harness="c33.cpp",
    theorems=[
    ],
    rule="call histories over generate_primes/clear/set_clear/set_sieve_size/iterators on the process-global sieve; "
         "distinct = distinct history lines; non-trivial = every history (each has >= 1 sieve call); tags: boundary "
         "(limits within +-3 of k*2*segment), hist-smallseg (1-3 KiB sieve), hist-defaultseg",
    not_covered=["HAVE_SYMENGINE_PRIMESIEVE branch (library absent)", "limits >= 2^31 (unsigned wrap-around)",
                 "set_sieve_size(0) (the segment loop does not advance)"],
    assumptions=["std::floor(std::sqrt(double(limit))) == Nat.sqrt limit for limit < 2^32"],
)
