SPEC = dict(
    id="C33",
    level="proof",
    lean_props="SymVerif.Props.C33",
    driver="C33",
    harness="c33.cpp",
    theorems=[
        # 1 bounds (repaired code) and the defect D15 of the original code
        "SymVerif.C33.extend_correct",
        "SymVerif.C33.extend_no_oob",
        "SymVerif.C33.orig_extend_oob",
        "SymVerif.C33.orig_extend_oob_witness",
        "SymVerif.C33.orig_segLoop_oob_small",
        # 2 invariant
        "SymVerif.C33.inv_initial",
        "SymVerif.C33.step_preserves_inv",
        # 3 core sieve lemma
        "SymVerif.C33.sieve_unmarked_iff_prime",
        "SymVerif.C33.sieve_segment_correct",
        # 4, 5 the two API entry points
        "SymVerif.C33.generatePrimes_correct",
        "SymVerif.C33.nextPrime_correct",
        # 6 histories
        "SymVerif.C33.history_correct",
        "SymVerif.C33.history_no_ub",
        "SymVerif.C33.history_gen_outputs",
        "SymVerif.C33.history_iter_outputs",
        "SymVerif.C33.iterRun_unlimited",
        "SymVerif.C33.iterRun_limited",
        "SymVerif.C33.history_no_error",
        "SymVerif.C33.history_complete",
    ],
    rule="call histories over generate_primes/clear/set_clear/set_sieve_size/iterators on the process-global sieve; "
         "distinct = distinct history lines; non-trivial = every history (each has >= 1 sieve call); tags: boundary "
         "(limits within +-3 of 30 + k*2*segment, fresh cache), boundary-warm (same around (cached prime)+1 + k*2*segment), "
         "hist-smallseg (1-3 KiB sieve), hist-defaultseg, stale-iter (iterator standing beyond size() after a clear), "
         "iter-limit / iter-limit-cached (limit below the cached range, limit+1 prime), iter-recreate",
    not_covered=["HAVE_SYMENGINE_PRIMESIEVE branch (library absent)",
                 "limits >= 2^31 (unsigned wrap-around of start+2*segment, p*p): the model answers E:range",
                 "set_sieve_size(0) (the segment loop does not advance; modelled as E:fuel, excluded by OpsOk)",
                 "set_sieve_size(k) with k*8192 >= 2^32 (unsigned wrap of _sieve_size)",
                 "concurrent use of the static cache from several threads",
                 "std::vector::operator[] beyond size() (stale read in next_prime) is modelled as a read of the retained "
                 "storage - true for libstdc++/libc++ without _GLIBCXX_ASSERTIONS; formally undefined behaviour"],
    assumptions=["std::floor(std::sqrt(double(limit))) == Nat.sqrt limit for limit < 2^32",
                 "std::vector::erase/push_back keep the stale tail of the storage intact until it is overwritten "
                 "(no reallocation before size()==capacity())"],
    level_text="Machine-checked proof (Lean 4 + Mathlib) over an executable model of prime_sieve.cpp, for ALL call "
               "histories with limits < 2^31 and positive sieve sizes: no out-of-bounds access, generate_primes returns "
               "exactly (List.range (limit+1)).filter Nat.Prime, iterators return consecutive primes (Nat.nth Nat.Prime) "
               "with the end marker limit+1 only when the next prime exceeds the limit. The model is tied to the C++ by "
               "differential execution of generated histories on the real library plus an independent oracle.",
    level_note="The only residual outcome the history theorem allows besides a correct result is Err.range at an "
               "iterNext whose extension target 2*p or limit is >= 2^31 (never produced on generated inputs; the model "
               "would print E:range). history_no_error removes it for iterators with a limit in (0,2^31).",
    technique="invariant 'storage (incl. stale tail) = prefix of the prime enumeration' + loop specifications by "
              "induction on fuel (markSlice/markLoop/collectLoop/segLoop/extendWith), Nat.count/Nat.nth from Mathlib, "
              "Nat.minFac_sq_le_self for the sieve lemma, Bertrand's postulate for the iterator's doubling step; "
              "general refutation theorem for the pre-fix segment end (D15)",
    partial=[],
)
