import sys
from pathlib import Path
sys.path.insert(0, str(Path(__file__).resolve().parent.parent / "tools" / "extract"))
from c40_rcp import fn as rcp_translator  # noqa: E402

SPEC = dict(
    id="C40",
    level="partial",
    lean_props="SymVerif.Props.C40",
    driver="C40",
    harness="c40.cpp",
    validate_mode=True,
    translators=[rcp_translator],
    configs={"quick": ["assert"], "thorough": ["assert", "asan"]},
    run_env={"asan": {"ASAN_OPTIONS": "detect_leaks=1:abort_on_error=1:halt_on_error=1",
                      "UBSAN_OPTIONS": "halt_on_error=1:abort_on_error=1:print_stacktrace=1"}},
    run_timeout=1500,
    theorems=[
        "SymVerif.C40.no_memory_error",
        "SymVerif.C40.rc_inv",
        "SymVerif.C40.immutable",
        "SymVerif.C40.steal_safe",
        "SymVerif.C40.no_leak",
        "SymVerif.C40.no_leak_count",
        "SymVerif.C40.steal_sites_guarded",
        "SymVerif.C40.steal_unguarded_unsafe",
        "SymVerif.RC.step_good",
        "SymVerif.RC.run_good",
    ],
    partial=[
        "C40 as a whole is partial: the theorems cover the reference-count protocol (every program over "
        "construct/copy/move/assign/reset/destroy/rcp_from_this/member-copy/steal); out-of-bounds access, "
        "uninitialised reads and UB in code outside the protocol are only *explored* by the asan configuration",
    ],
    rule="op lines: 'T <ops>' = a handle-level program over a pool of RCP<const Basic> slots (real RCP copy / move / "
         "copy-assign / move-assign / reset / rcp_from_this mixed with add mul sub div pow neg expand sin cos exp log "
         "diff subs), 4-49 ops; after every op the harness reconstructs the reference-level trace from the stored "
         "fields of everything reachable and prints the real use_count() of every tracked object; the Lean driver "
         "replays the trace on RC.step and must agree at every checkpoint (certificate mode). 'W <kind> <seed> <n>' = "
         "a whole API workload (arith expand calculus parse print matrix poly sets ntheory series solve eval "
         "serialize, dense = rectangular and densesq = square small matrices with leading zero columns / zero rows / "
         "repeated rows / all zero through rref, the pivoted and fraction-free eliminations, LU, inverses, solves and "
         "aliasing calls, sparse = CSRMatrix set() histories with zero writes / overwrites / erasures / empty leading "
         "rows checked against the CSR index invariant and an integer mirror after every write, then from_coo, add, "
         "elementwise product, transposes, diagonal, scaling) repeated until steady state; output = heap growth of the last repetition; a failed internal "
         "assertion inside a workload is FAIL:assert. distinct = distinct op "
         "lines; non-trivial = every line (each performs >= 3 library calls); tags: trace-short/medium/long, "
         "trace-<boundary>, workload-<kind>. In the thorough tier the same lines are executed again by the "
         "ASan+UBSan+LeakSanitizer build (any report aborts = FAIL:crash).",
    not_covered=[
        "memory safety of code outside the reference-count protocol (index arithmetic in matrices, polynomials, the "
        "sieve, LDE solver, parsers, serialization): not proved here; only explored by the asan configuration on the "
        "generated workloads (and proved per component by the properties that model that component: C33, C24, C21, C46, C20)",
        "the Teuchos RCP (WITH_SYMENGINE_RCP=no) configuration",
        "the steal inside the library is not observable in the trace (the stolen Mul is dead when the call returns); "
        "it is tied by the source check steal_sites_guarded and by the harness immutability oracle (no slot's printed "
        "form ever changes)",
        "objects of classes whose stored members the harness cannot enumerate exactly (anything but numbers, symbols, "
        "constants, Add, Mul, Pow, Infty and one-argument functions) make a T line OPAQUE (skipped, counted)",
        "D7 inputs (Number ** symbolic exponent products, mul.cpp) are not generated",
    ],
    assumptions=[
        "the order in which a destructor releases the members of a deleted object is unobservable (work list vs recursion)",
        "objects allocated before an op line starts and reachable from results are static objects of the library "
        "(constants, tables); their use_count is compared modulo the constant number of static holders",
        "glibc malloc_usable_size is a function of the block only (used for byte accounting)",
    ],
    level_text="partial",
    level_note="The Lean kernel proves the intrusive reference-count protocol (count = number of references, freed "
               "exactly at 0, no access to a freed object, guarded steal unobservable, no leak by acyclicity) for "
               "every program, and the harness ties the real library to that model by trace replay and heap "
               "accounting. Out-of-bounds / uninitialised reads / UB in unmodelled code can only be exhibited by the "
               "ASan+UBSan+LSan runs, which are exploration supporting the search, not proof.",
    technique="state-machine model + inductive invariant (Lean 4 core, no Mathlib); certificate-mode trace replay; "
              "source-shape translator; heap accounting; sanitizer exploration",
)
