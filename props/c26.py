SPEC = dict(
    id="C26",
    level="proof",
    lean_props="SymVerif.Props.C26",
    driver="C26",
    harness="c26.cpp",
    theorems=[
        # value preservation of the constructor functions
        "SymVerif.C26.diagonal_matrix_value",
        "SymVerif.C26.immutable_dense_matrix_value",
        "SymVerif.C26.matrix_add_value",
        "SymVerif.C26.matrix_mul_value",
        "SymVerif.C26.hadamard_value",
        "SymVerif.C26.transpose_value",
        "SymVerif.C26.conj_value",
        "SymVerif.C26.trace_value_partial",
        "SymVerif.C26.trace_domain_sound",
        # size and predicates
        "SymVerif.C26.size_sound",
        "SymVerif.C26.pred_sound",
        "SymVerif.C26.is_zero_sound",
        "SymVerif.C26.is_diagonal_sound",
        "SymVerif.C26.is_symmetric_sound",
        "SymVerif.C26.is_lower_sound",
        "SymVerif.C26.is_upper_sound",
        "SymVerif.C26.is_real_sound",
        "SymVerif.C26.is_square_sound",
        "SymVerif.C26.is_toeplitz_sound",
        "SymVerif.C26.predWF_of",
        # the building blocks (kept in the audit so that a weakened lemma is noticed)
        "SymVerif.MatExpr.matrixAdd_value",
        "SymVerif.MatExpr.matrixMul_value_aux",
        "SymVerif.MatExpr.hadamard_value_aux",
        "SymVerif.MatExpr.transpose_value_aux",
        "SymVerif.MatExpr.conj_value_aux",
        "SymVerif.MatExpr.trace_value_aux",
        "SymVerif.MatExpr.size_sound_aux",
        "SymVerif.MatExpr.pred_sound_aux",
        "SymVerif.MatExpr.mulLoop_spec",
        "SymVerif.MatExpr.flatten_spec",
    ],
    rule="one op = one recipe (S-expression tree over identity / zero / diagonal / dense leaves, matrix symbols, "
         "symbolic dimensions, scalars) built bottom-up through identity_matrix, zero_matrix, diagonal_matrix, "
         "immutable_dense_matrix, matrix_symbol, matrix_add, matrix_mul, hadamard_product, transpose, conjugate_matrix "
         "(and trace); the output is the structural dump of the resulting expression, the eight predicate tribools "
         "and size(). distinct = distinct op lines; non-trivial = every op (each builds at least one matrix object). "
         "tags: fixed (boundary cases: zero absorption, scalar*identity, Hadamard with identity, every small dense "
         "shape for is_toeplitz, unknown sizes inside sums, cancelling merges, transpose/conjugate towers, constructor "
         "edge cases, traces), pairs / triples / unary (all pairs and random triples of a 22-element 2x2 catalogue "
         "under add / mul / had, all unary towers), dense-shapes (every r x c <= 4 x 4 with structured content), "
         "tree-concrete, tree-concrete-mismatch (12% wrong sizes per node: DomainError expected), tree-symbols, "
         "tree-symdims, tree-tiny-entries (entries in -1..1: merges to zero / identity), trace-*",
    not_covered=[
        "entries and scalars other than exact numbers (Integer, Rational, Complex): symbolic entries, RealDouble",
        "dimension arguments other than integers, rationals and plain symbols (e.g. n+1)",
        "Assumptions objects passed to the predicates",
        "release builds after a failed canonical-form assertion: where a merge produces a zero / identity / "
        "diagonal-valued DiagonalMatrix or ImmutableDenseMatrix the verification build throws (model: E:Assert, known "
        "finding C26-noncanonical-merge) and the theorems say nothing about the non-canonical object a release build "
        "would go on with",
        "IdentityMatrix of size 0: is_zero(I_0) = false although the 0x0 matrix is (vacuously) zero; excluded by the "
        "hypothesis IdentPos and not generated",
        "matrix_mul without any matrix factor (matrix_mul({2, 3}), matrix_mul({2})): indexes an empty vector / casts a "
        "Number to MatrixExpr; not executed, model and harness print E:UB",
        "immutable_dense_matrix(m, n, v) with v.size() != m*n (reads past the vector): rejected as bad-op",
        "trace results that are symbolic sums (e.g. 2 + Trace(X)): printed as `other`; only their value is checked by the oracle",
        "hash / compare / __eq__ of the matrix classes (C01/C02)",
    ],
    assumptions=[
        "SymEngine add / mul / sub / conjugate / is_zero / is_real on Integer, Rational, Complex are exact Gaussian-"
        "rational arithmetic (model type GQ over core Rat); checked only through the correspondence run",
        "is_zero(sub(a, b)) on dimensions: true for identical arguments, false for two different integers, "
        "indeterminate otherwise (integer and plain-symbol dimensions)",
        "the model follows the code as patched by docs/patches/C26_all.patch (see docs/C26.md); on the unpatched tree "
        "the check reports the corresponding defects",
    ],
    level_text="Machine-checked proof (Lean 4 + Mathlib) over an executable model of symengine/matrices/*.cpp, for ALL "
               "operand lists and ALL interpretations of matrix symbols and dimension symbols: whenever the dense "
               "computation on the operand values is defined, the result of matrix_add / matrix_mul / hadamard_product "
               "/ transpose / conjugate_matrix is defined and has that value; every known component of size() is the "
               "concrete dimension; every definite answer of is_zero / is_diagonal / is_symmetric / is_lower / is_upper "
               "/ is_real / is_square / is_toeplitz agrees with the concrete matrix; numeric, symbolic-dimension and "
               "unevaluated results of trace are the trace. The model is tied to the C++ by differential execution of "
               "generated recipes on the real library (structural dump of the result, all tribools, size) plus an "
               "independent dense-evaluation oracle in the harness.",
    level_note="Hypotheses of the predicate theorems (value defined, MatrixAdd nodes canonical, no 0x0 identity) are "
               "decidable predicates which the driver evaluates on every printed result (markers NONCANONICAL-ADD / "
               "IDENT0 would appear as correspondence differences). Results E:Assert / E:Domain of the model are "
               "outside the theorems and covered by the correspondence run only. trace_value_partial says nothing "
               "about results the model prints as `other`.",
    technique="semantics valOf/okOf (shape + entry function) under an environment; commutative-ring instance for "
              "Gaussian rationals; loop invariants for the partition / merge loops of matrix_add, hadamard_product "
              "(entrywise sums / products split into keep + pending diagonal + pending dense) and matrix_mul (ordered "
              "chain with a pending merged leaf, identity dropping, associativity and congruence of the matrix "
              "product on shape-compatible chains, flattening of nested products with scalar extraction); structural "
              "mutual induction over the nested expression type for transpose / conjugate / trace / size / predicates; "
              "the four linear predicates (diagonal, symmetric, lower, upper) handled uniformly through a linear "
              "functional; Toeplitz through constancy along diagonals",
    partial=["SymVerif.C26.trace_value_partial", "SymVerif.C26.trace_domain_sound"],
)
