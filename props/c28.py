SPEC = dict(
    id="C28",
    level="proof",
    lean_props="SymVerif.Props.C28",
    driver="C28",
    harness="c28.cpp",
    theorems=[
        "SymVerif.C28.and_or_sound",
        "SymVerif.C28.and_sound",
        "SymVerif.C28.or_sound",
        "SymVerif.C28.not_sound",
        "SymVerif.C28.xor_sound",
        "SymVerif.C28.nand_sound",
        "SymVerif.C28.nor_sound",
        "SymVerif.C28.xnor_sound",
        "SymVerif.C28.and_or_perm_truth",
        "SymVerif.C28.and_or_dup_truth",
        "SymVerif.C28.nor_de_morgan",
        "SymVerif.C28.xnor_not_xor",
        "SymVerif.C28.not_not_truth",
        "SymVerif.C28.xor_perm_truth",
        "SymVerif.C28.piecewise_sound",
        "SymVerif.C28.recipe_sound",
        "SymVerif.C28.subst_sound_at",
        "SymVerif.C28.and_canonical",
        "SymVerif.C28.not_involutive",
        "SymVerif.C28.not_canonical",
        "SymVerif.C28.and_or_canonical",
        "SymVerif.C28.xor_canonical",
        "SymVerif.C28.recipe_canonical",
        "SymVerif.C28.piecewise_canonical",
        "SymVerif.C28.wf_cppCanonical",
    ],
    partial=[
        "and_sound/nand_sound/recipe_sound/and_canonical: stated for inputs on which the model answers (andE s = some b); "
        "logical_and calls in which several Contains(x, FiniteSet) conjuncts meet are excluded (the C++ applies the "
        "FiniteSet-domain rule to the first one in hash order); those inputs are covered by the harness oracle only",
    ],
    level_note="proof for and_or (incl. the FiniteSet-domain rule for one FiniteSet conjunct, integer elements and "
               "integer-constant conditions on the symbol), logical_not of every class, logical_xor, nand/nor/xnor, "
               "piecewise pruning, substitution of integers, canonical-form invariants; atoms other than those over "
               "the distinguished symbol are opaque",
    technique="Lean 4 model + structural-induction proofs; correspondence of canonical dumps; independent truth-table "
              "and numeric-substitution oracle",
    rule="op lines: 'f <sexpr>' = a boolean formula (depth <= 4, <= 6 (thorough: 8) distinct opaque atoms out of 8 "
         "relational pairs Lt/Le, Le/Lt, Eq/Ne, Ne/Eq over private symbols and 4 Contains(z, Interval) atoms, plus atoms "
         "over one symbol x with integer constants (x<c, x>=c, x<=c, x>c, x=c, x!=c, Contains(x, Interval), Contains(x, "
         "FiniteSet)), constants, duplicates, complementary literals) built bottom-up through "
         "logical_and/or/xor/not/nand/nor/xnor; 'pw …' = piecewise() over such conditions; 'domc …' = logical_and of Contains(x, FiniteSet with pi, E, sqrt2, sqrt3, rationals, integers) and relationals of x against rational bounds / opaque atoms (oracle only: recipe vs result evaluated at every element and at points outside). distinct = distinct op "
         "lines; non-trivial = every line (each runs >= 1 API call and a full truth table x every relevant integer "
         "value of x); tags: sys-* (all unary/binary/depth-2 combinations over a 10-leaf universe), rand-depth<k>, "
         "rand-xor, rand-piecewise, domc-sys/rand-domc/rand-domc-pure, dom-sys/rand-domain (one FiniteSet conjunct: the FiniteSet-domain rule), rand-xmix",
    not_covered=[
        "logical_and with several Contains(x, FiniteSet) conjuncts (hash-order dependent choice): model answers SKIP, "
        "only the oracle checks these (142 of 26366 quick ops)",
        "FiniteSet elements / relational constants that are not integers are not modelled in Lean: rationals, pi, E, "
        "radicals are checked by the oracle-only 'domc' family; doubles, symbolic elements, Contains over non-symbol "
        "expressions and open intervals over x are not exercised",
        "semantics of the opaque atoms (Interval::contains, relational evaluation on numbers) belong to C27/C29; "
        "they are exercised by the numeric-substitution oracle only",
        "Not/And/Or/Xor objects built directly with make_rcp by a user (outside the invariant wf)",
        "non-real numeric values (NaN, complex) for the symbols",
    ],
    assumptions=[
        "RCPBasicKeyLess is a strict total order consistent with eq() (the model uses a structural order; results are "
        "compared after sorting by dump string)",
        "the two symbols of each relational atom take real numeric values (so Lt(x,y) and Le(y,x) are complementary)",
    ],
)

SPEC.setdefault("level_text", "Lean theorems (19, for all formulas, valuations and nestings) over the executable model of and_or, logical_not/xor/nand/nor/xnor, "
    "piecewise pruning and the FiniteSet-domain rule: every constructor result has the truth value of the textbook connective and satisfies "
    "is_canonical; tied to /repo by differential correspondence each run plus an independent truth-table oracle on the real objects.")
