import sys
from pathlib import Path

sys.path.insert(0, str(Path(__file__).resolve().parent.parent / "tools" / "extract"))
from c43_expected import expected_table  # noqa: E402

SPEC = dict(
    id="C43",
    level="proof",
    lean_props="SymVerif.Props.C43",
    driver="C43",
    harness="c43.cpp",
    translators=[expected_table],
    configs={"quick": ["assert", "boostmp"], "thorough": ["assert", "boostmp", "gmpxx"]},
    corr_all_configs=True,
    theorems=[
        "SymVerif.C43.fdiv_qr",
        "SymVerif.C43.fdiv_q",
        "SymVerif.C43.fdiv_r",
        "SymVerif.C43.cdiv_q",
        "SymVerif.C43.tdiv_qr",
        "SymVerif.C43.gcdext_bezout",
        "SymVerif.C43.gcdext_spec_bezout",
        "SymVerif.C43.invert",
        "SymVerif.C43.invert_meaning",
        "SymVerif.C43.invert_fails_iff",
        "SymVerif.C43.newton_root",
        "SymVerif.C43.iroot_floor",
        "SymVerif.C43.root",
        "SymVerif.C43.root_repair_same",
        "SymVerif.C43.sqrt",
        "SymVerif.C43.rootrem",
        "SymVerif.C43.sqrtrem",
        "SymVerif.C43.perfect_square",
    ],
    rule="op lines `mp <fn> <args>` (one call of a backend-neutral mp_* function / integer_class operator) and "
         "`work <family> <k>` (deterministic exact workload through ntheory, Rational, expand, polynomials, "
         "printing, matrices); every line is run through each integer-backend build (gmp, boostmp; thorough: "
         "+gmpxx) and compared with the Lean specification (mp) or with the GMP build's result (work)",
    not_covered=[],
    assumptions=[],
)
