import sys
from pathlib import Path

sys.path.insert(0, str(Path(__file__).resolve().parent.parent / "tools" / "extract"))
from c43_expected import expected_table  # noqa: E402

SPEC = dict(
    id="C43",
    level="proof",
    lean_props="SymVerif.Props.C43",
    driver="C43",
    harness="c43.cpp",
    translators=[expected_table],
    configs={"quick": ["assert", "boostmp"], "thorough": ["assert", "boostmp", "gmpxx"]},
    corr_all_configs=True,
    theorems=[
        "SymVerif.C43.fdiv_qr",
        "SymVerif.C43.fdiv_q",
        "SymVerif.C43.fdiv_r",
        "SymVerif.C43.cdiv_q",
        "SymVerif.C43.tdiv_qr",
        "SymVerif.C43.gcdext_bezout",
        "SymVerif.C43.gcdext_spec_bezout",
        "SymVerif.C43.gcdext_window",
        "SymVerif.C43.gcdext",
        "SymVerif.C43.invert",
        "SymVerif.C43.invert_meaning",
        "SymVerif.C43.invert_fails_iff",
        "SymVerif.C43.newton_root",
        "SymVerif.C43.iroot_floor",
        "SymVerif.C43.root",
        "SymVerif.C43.root_repair_same",
        "SymVerif.C43.sqrt",
        "SymVerif.C43.rootrem",
        "SymVerif.C43.sqrtrem",
        "SymVerif.C43.perfect_square",
        "SymVerif.C43.perfect_power_meaning",
        "SymVerif.C43.perfect_power",
        "SymVerif.C43.trial_prime",
        "SymVerif.C43.probab_prime",
        "SymVerif.C43.powmod_meaning",
        "SymVerif.C43.powm",
        "SymVerif.C43.fac",
        "SymVerif.C43.matrix_pow",
        "SymVerif.C43.fib",
        "SymVerif.C43.fib2",
        "SymVerif.C43.lucnum",
        "SymVerif.C43.lucnum2",
        "SymVerif.C43.unchecked_jacobi",
        "SymVerif.C43.jacobi_meaning",
        "SymVerif.C43.jacobi",
        "SymVerif.C43.kronecker",
        "SymVerif.C43.legendre",
        "SymVerif.C43.bin",
        "SymVerif.C43.scan1",
        "SymVerif.C43.orig_kronecker_zero_differs",
        "SymVerif.C43.orig_jacobi_negative_differs",
        "SymVerif.C43.orig_probabPrime_negative_differs",
        "SymVerif.C43.orig_gcdext_zero_differs",
        "SymVerif.C43.orig_powm_negative_modulus_differs",
        "SymVerif.C43.orig_lucnum2_zero_differs",
        "SymVerif.C43.orig_perfectPower_unbounded",
    ],
    rule="op lines `mp <fn> <args>` (one call of a backend-neutral mp_* function / integer_class operator), "
         "`work <family> <k>` (deterministic exact workload through ntheory, Rational, expand, polynomials, "
         "printing, matrices) and `parse <literal>`; every line is run through each integer-backend build (gmp "
         "mpz_wrapper, boostmp; thorough: + gmpxx) and compared with the Lean specification (mp, parse) or with "
         "the GMP build's result tabulated by the translator (work). distinct = distinct op lines; non-trivial = "
         "every line. tags: small-* exhaustive ranges (|a|,|b| <= 12, thorough 40; roots |i| <= 400/3000, n <= 6; "
         "powm cube), big-* random 64..2000-bit arguments incl. zero, negatives, 2^k, 2^k+-1, perfect powers +-1, "
         "seq (fib/lucas/fac/bin/primorial), convert (word boundaries), edge-* (the inputs of defects D1-D8), "
         "parse-*, work-<family>",
    not_covered=[
        "FLINT and Piranha backends (libraries not installed)",
        "mp_nextprime is compared with the specification only (its fuel argument needs Bertrand's postulate; "
        "Boost's Miller-Rabin is trusted anyway); mp_primorial (uses the sieve, C33), mp_and, conversions, "
        "rational_class arithmetic: correspondence only",
        "Boost library primitives (divide_qr, pow, gcd, lcm, powm, find_lsb, operator&, miller_rabin_test) and "
        "GMP itself are trusted to meet their documentation",
        "mp_get_d/mp_set_d (GMP truncates, Boost rounds to nearest: eval_double(Integer(2^53+3)) differs in the "
        "last place; floating point, not an exact computation), mp_set_str prefixes, non-fitting get_si/get_ui, "
        "operator>> of a negative integer_class (mpz_wrapper truncates, mpz_class/cpp_int floor; never used on "
        "negative values by symengine)",
        "inputs on which GMP aborts (division by zero, even root of a negative, 0^(-k)), legendre with a non-prime, "
        "jacobi with an even lower argument",
        "random-number based functions (mp_randstate, factor/pollard with random seeds)",
        "perfect_power theorem: bit length < 10^6; legendre theorem: p < 10^6",
        "workload families: a change that alters a result on all backends alike is not an alarm here (the "
        "expected table is regenerated from the GMP build on every run)",
    ],
    assumptions=[
        "strong probable prime test to the first 13 prime bases is exact below 3.3*10^24 (Sorenson-Webster); the "
        "generated prime arguments are < 2^66; below 10^6 the specification uses trial division (proved = Nat.Prime)",
        "boost::multiprecision::miller_rabin_test(n, 25) answers primality correctly (error < 4^-25)",
        "GMP (mpz_*) meets its documentation; the correspondence of the gmp and gmpxx builds with the same Lean "
        "specification checks this on every generated input",
    ],
    level_text="Machine-checked proofs (Lean 4 kernel; Mathlib for primes, ZMod/Euler criterion and jacobiSym) that "
               "the hand-written Boost.Multiprecision implementations of symengine's integer interface "
               "(mp_boost.cpp / mp_class.h, modelled loop by loop with the proposed one-line repairs D1-D8) return "
               "for ALL arguments what the GMP-documented specification returns: floor/ceiling/truncated division "
               "for the four sign combinations, modular inverse in [0,|m|), modular powers incl. negative moduli "
               "and exponents, Newton integer roots (invariant + termination, any starting guess) with sign and "
               "exactness flag, sqrt/rootrem/sqrtrem/perfect squares, perfect powers (prime-exponent loop and "
               "its number theory), factorial, Fibonacci/Lucas by 2x2 matrix squaring, binomial (exact division "
               "at every step), Jacobi/Legendre/Kronecker symbols against Mathlib's jacobiSym; extended gcd: gcd, "
               "Bezout identity and exactly the cofactors GMP documents. The unrepaired code is refuted on the "
               "minimal witnesses.",
    level_note="Three-way tie: every generated op runs through the gmp, boostmp (and gmpxx) builds of the working "
               "tree and through the Lean driver, which prints the specification value and cross-checks the "
               "Boost model; the harness oracle re-checks the defining inequalities with schoolbook arithmetic. "
               "Higher layers (work families) are compared backend against backend through a table regenerated "
               "from the GMP build. Not proved: mp_nextprime (compared only).",
    technique="Lean 4 executable specification over Int/Nat + loop-by-loop model of mp_boost.cpp (well-founded "
              "recursion for the Euclid, Newton, Jacobi and matrix-power loops) + equality theorems by loop "
              "invariants (Bezout combination; x >= floor root by integer weighted AM-GM; residue classes for "
              "square-and-multiply; (2|n)^k and quadratic reciprocity for the Jacobi recursion; k!|product of k "
              "consecutive integers) ; translator tabulating GMP results for cross-backend comparison; fork + "
              "time limit to observe non-termination.",
    partial=[],
    run_timeout=1500,
)
