SPEC = dict(
    id="C09",
    level="proof",
    lean_props="SymVerif.Props.C09",
    driver="C09",
    harness="c09.cpp",
    validate_mode=True,
    theorems=[
        # value preservation + completeness from the certificate
        "SymVerif.C09.expand_certificate_sound",
        "SymVerif.C09.judge_ok",
        "SymVerif.C09.expand_driver_ok_sound",
        "SymVerif.C09.expandedB_sound",
        # identity decision / idempotence on the polynomial fragment
        "SymVerif.C09.poly_identity_complete",
        "SymVerif.C09.poly_identity_sound",
        "SymVerif.C09.poly_identity",
        "SymVerif.C09.c09_identity_partial",
        "SymVerif.C09.poly_idempotent",
        "SymVerif.C09.eqb_iff",
        "SymVerif.C09.judgePair_ok",
        "SymVerif.C09.ex_accepts",
        "SymVerif.C09.ex_rejects_unexpanded",
        "SymVerif.C09.ex_rejects_uncombined",
        # multinomial table used by pow_expand
        "SymVerif.Multinomial.multinomial_sound",
        "SymVerif.Multinomial.multinomial_coeff",
        "SymVerif.Multinomial.multinomial_eq_nat_multinomial",
        "SymVerif.Multinomial.multinomial_small_complete",
    ],
    rule="one call expand(e) on an expression built through the public API (op 'expand'), one pair of calls for the "
         "identity decision (op 'pair'), one table multinomial_coefficients_mpz(m, n) (op 'multinomial'); distinct = "
         "distinct op lines; non-trivial = all (inputs that are a bare number or symbol are not generated). Tags: "
         "poly*/poly-gauss*/poly-big* = polynomials over Z, Q, Q(i), multi-limb integers (-small <= 3, -mid <= 30, "
         "-large <= 400 monomials in the result); fatom = opaque f(x), g(x,y), sin(x+t) atoms; laurent = negative "
         "powers of atoms; ratfun = negative powers of sums (shared sub-terms); cancel/cancel-negpow = powers of sums "
         "that collapse to a monomial or a number when expanded; radical = rational powers of sums (D9 family, Lean "
         "answers SKIP, oracles only); radprod / radprod-in-sum = products of symbols with radicals or symbolic powers "
         "whose bases contain products / integer powers of sums, paired with the same product over the bases expanded by "
         "the harness (op rpair: eq of the two expansions, completeness inside the bases, idempotence, numeric value; "
         "Lean SKIP); surdpow* = powers n >= 3 of sums with a numeric-surd term such as sqrt(2)*x (rexpand, numeric oracle); pair-equal / pair-perturbed = identity decision; multinomial; fixed* = "
         "test_arit shapes and the minimal inputs of the defects. impl_stats: dict_judged, dict_terms_total, "
         "value_points_judged, numeric_points_judged, pair_equal_polynomials, pair_different_polynomials.",
    not_covered=[
        "radicals and symbolic exponents: outside the property's quantifier; generated only for the D9 family "
        "(rexpand: no Lean certificate, numeric oracle at positive points + structural oracles)",
        "floating-point coefficients (the checker answers SKIP:input-float)",
        "expand(e, deep=false) and the UExprPoly / UIntPoly branches of ExpandVisitor::bvisit(Pow)",
        "expansion inside function arguments (the library does not expand there; the completeness predicate does "
        "not look there either)",
        "completeness of the normal form (two polynomial expressions with equal values in every field of "
        "characteristic 0 have equal canonPoly) is not proved: C09_full; poly_identity is stated with canonPoly "
        "equality on one side and semantic equality as a proved consequence",
        "idempotence outside the polynomial fragment is tested by the oracle (eq(expand(expand e), expand e)), not "
        "proved; totality/completeness of the multinomial model (no Err, all compositions) is proved only for "
        "m <= 5, n <= 6 by kernel evaluation and tested against the library up to m = 7, n = 12",
        "exponents beyond 64 (NF.maxExp), results with more than ~400 monomials",
    ],
    assumptions=[
        "harness/sexp.h dumps the stored fields of input and result faithfully (Add = coef + sum coef_i*key_i, "
        "Mul = coef * prod base_i^exp_i, Pow) with dictionary entries sorted by their own dump",
        "atoms (symbols, function applications) are interpreted by an arbitrary assignment of their dump strings; "
        "the value theorem holds for every such assignment",
        "eq(a, b) on expanded results coincides with equality of the canonical dumps (checked per pair: eq flag vs "
        "Expr.eqb of the parsed dumps)",
    ],
    level_text="Certificate checking with a proven-sound checker: for every generated expand call of the exact "
               "integer-exponent fragment the library's result R is accepted only if (1) the rational-function normal "
               "forms of R and of the input agree, (2) R is structurally expanded, (3) on the polynomial fragment (polynomials in symbols and opaque atoms) R is "
               "entry for entry the rendering of the reduced monomial dictionary of the input. Lean proves: acceptance "
               "implies equal values in every field of characteristic 0 at every assignment where both are defined, "
               "and Expanded R; accepted results of two polynomial inputs are equal iff the dictionaries are equal, "
               "equal results imply equal values everywhere; an accepted re-expansion of an accepted polynomial result "
               "is that result (idempotence); every entry of the model of multinomial_coefficients_mpz is n!/prod k_i!.",
    level_note="proof about the checker and about the multinomial model; per generated input a certificate, not a "
               "proof about ExpandVisitor's source. Known defects of the real code are reported by the oracles: D9 "
               "(radicals of sums: a product of expanded keys re-creates a sum or a power of a sum), D9b (negative "
               "powers of sums multiply to (sum)^-k, rewritten by a second expand: not idempotent), D9c (a power whose "
               "expanded base collapses to a number or a monomial with coefficient is inserted as a key of the "
               "result: non-canonical sum, is_canonical assertion).",
    technique="reflexive normaliser (NF) with Lean soundness proof; canonical rendering of the reduced dictionary; "
              "validate_mode certificates; loop-invariant proof of the multinomial recurrence (Mathlib Nat.factorial); "
              "independent GMP schoolbook-expansion, exact-point and numeric oracles in the harness",
    partial=[
        "C09_full (def): semantic completeness of the identity decision (equal polynomial functions over every "
        "characteristic-0 field => equal canonPoly) — not proved; poly_identity_complete is stated with canonPoly "
        "equality as hypothesis",
        "multinomial completeness (all compositions produced, no Err) only for m <= 5, n <= 6 (multinomial_small_complete)",
    ],
    search_seeds=2,
)
