import sys
from pathlib import Path
sys.path.insert(0, str(Path(__file__).resolve().parent.parent / "tools" / "extract"))
from c16_names import fn as c16_names          # noqa: E402
from c44_names import fn as c44_names          # noqa: E402
from c01_typecodes import fn as c01_typecodes  # noqa: E402

SPEC = dict(
    id="C44",
    level="partial",
    lean_props="SymVerif.Props.C44",
    driver="C44",
    harness="c44.cpp",
    validate_mode=True,
    translators=[c01_typecodes, c16_names, c44_names],
    theorems=[
        "SymVerif.C44.escText_chardata",
        "SymVerif.C44.ser_wellformed",
        "SymVerif.C44.mathml_names_ok",
        "SymVerif.C44.mathml_ok",
        "SymVerif.C44.mathml_wellformed",
        "SymVerif.C44.unescaped_witness",
        "SymVerif.C44.texCheck_ser",
        "SymVerif.C44.latex_balanced",
        "SymVerif.C44.texCheck_examples",
    ],
    rule="one op = one printer applied to one expression: `pr <printer> <dump>` (objects built through the public API), "
         "`pw <printer> <seed>` (a Piecewise rebuilt from the seed), `cat <k>` (catalogue of the classes the wire format "
         "cannot carry: polynomials, GaloisField, series, matrix expressions, Tuple, Dummy, user Constant, Subs, "
         "Derivative, Intersection, Naturals, UniversalSet, ...; all five printers). distinct = distinct op lines; "
         "non-trivial = all. Tags: catalogue, leaf / leaf-in-sum / leaf-in-power / leaf-in-product (every number and "
         "constant class incl. oo -oo zoo nan), symbol-name (greek, subscripts, underscores, XML and TeX markup "
         "characters), function (every named function class), nested-power (exponent or base is a power with rational exponent p/q), derivative, arith / arith-float / arith-inf, relational, "
         "boolean, piecewise, set",
    not_covered=[
        "the LaTeX, Unicode, Julia and SBML printers are not modelled: their real output is checked by the harness "
        "oracles (and, for LaTeX groups and Unicode line widths, by the Lean checkers in the driver), not predicted",
        "MathML model: Piecewise, sets, Contains, Derivative, Subs, Dummy, Catalan / GoldenRatio, UnevaluatedExpr are "
        "answered SKIP (the real output is still checked for well-formedness)",
        "validity of the MathML vocabulary (e.g. <kroneckerdelta/> is not a MathML element) and of the LaTeX macros; "
        "only well-formedness / group structure",
        "Unicode: display width is taken as the number of code points (no wide or combining characters are emitted)",
        "SBML round trip outside the fragment numbers / finite doubles / identifiers / pi E / + * ^ / the functions "
        "shared by printer and parser / relationals / and or xor not / piecewise / oo -oo nan",
        "uniqueness of attribute names in the XML well-formedness predicate (the printer writes at most one attribute)",
    ],
    assumptions=[
        "Add::get_args() enumerates the summands in an unspecified (hash table) order: MathML texts are compared "
        "modulo the order of the children of <apply><plus/>",
    ],
    level_text="Oracle-heavy check with proved cores. Proved (Lean 4): every tree the MathML model prints serialises "
               "to a well-formed XML element, whatever characters symbol names contain (mathml_wellformed, serialiser "
               "lemma incl. escaping); every serialised LaTeX group tree is accepted by the group matcher that the "
               "driver runs on the real LaTeX output (latex_balanced). Correspondence: the MathML model reproduces "
               "the real text on numbers, symbols, constants, sums, products, powers, functions, relationals and "
               "booleans. Oracles on the real library: totality of all five printers over every constructible class "
               "(only the documented exceptions), strict XML well-formedness, LaTeX group/delimiter structure, equal "
               "line widths of the Unicode box, parse_sbml(sbml(e)) == e on the SBML fragment.",
    level_note="partial: four of the five printers are validated on their real output only.",
    technique="tree model + serialiser, inductive rendering of the XML productions, escaping lemma; stack matcher for "
              "LaTeX groups with an acceptance proof by induction over trees; certificate-mode driver; independent "
              "C++ oracles (recursive-descent XML checker, TeX group/delimiter matcher, width check, SBML round trip)",
    partial=[],
)
