SPEC = dict(
    id="C07",
    level="proof",
    lean_props="SymVerif.Props.C07",
    driver="C07",
    harness="c07.cpp",
    validate_mode=True,
    theorems=[
        "SymVerif.NF.evalPoly_padd",
        "SymVerif.NF.evalPoly_pmul",
        "SymVerif.NF.evalPoly_ppow",
        "SymVerif.NF.rep_addF",
        "SymVerif.NF.rep_mulF",
        "SymVerif.NF.rep_divF",
        "SymVerif.NF.rep_powF",
        "SymVerif.NF.normT_sound",
        "SymVerif.NF.norm_sound",
        "SymVerif.NF.equivF_sound",
        "SymVerif.NF.equiv_sound",
        "SymVerif.C07.recipe_sound",
        "SymVerif.C07.c07_certificate_sound",
        "SymVerif.C07.judge_ok",
        "SymVerif.C07.c07_driver_ok_sound",
        "SymVerif.C07.c07_add",
        "SymVerif.C07.c07_sub",
        "SymVerif.C07.c07_mul",
        "SymVerif.C07.c07_div",
        "SymVerif.C07.c07_neg",
        "SymVerif.C07.c07_pow",
        "SymVerif.C07.ex_accepts",
    ],
    rule="one constructor call (add sub mul div neg pow addn muln) on operands built bottom-up through the public API "
         "(every construction step of a random tree is one case); distinct = distinct op lines; non-trivial = all "
         "(no 'trivial' tag is used; depth-1 cases have number/symbol operands). Tags: exact-d<k> = exact "
         "integer-exponent family, k = depth of the sub-tree whose construction is checked (certificate checked by the "
         "proven Lean normaliser + exact Q(i) oracle + subs oracle); radical-* = non-integer-exponent family "
         "(numeric oracle only, Lean driver answers SKIP:radical-family), radical-symexp-* = same numeric base with symbolic "
         "exponents whose sum is rational (exponent merging in Mul::dict_add_term_new); fixed = boundary cases. impl_stats count "
         "judged/discarded oracle points (exact_points_*, numeric_points_*, numeric_discard_near_cut/singularity).",
    not_covered=[
        "floating-point operands (value 'within rounding' is not a theorem; the checker answers SKIP:operand-float)",
        "non-integer exponents (radicals, symbolic exponents): no Lean theorem, numeric oracle only at 6 generic complex points, rel. tol. 1e-9",
        "values on branch cuts / at singularities (excluded by the property text)",
        "known finding C07-invpow-negative-real: pow(pow(c,-1),b) -> c**(-b) for constant c on the negative real axis, non-integer b (conjugate value); reported by the numeric oracle under the key invpow-negreal",
        "canonical-form assertions raised inside the constructors on radical operands are counted (radical_ops_canonical_assert_ignored) and left to C03",
        "completeness of the checker (a value-preserving result could in principle be rejected) is tested, not proved; soundness is proved",
    ],
    assumptions=[
        "harness/sexp.h dumps the stored fields of the result faithfully (Add = coef + sum coef_i*key_i, Mul = coef * prod base_i^exp_i, Pow)",
        "atoms (symbols, constants, function applications) are interpreted by an arbitrary assignment of their dump strings; "
        "the theorem holds for every such assignment, in particular for the true values of pi, E, sin(x+y)",
    ],
    level_text="Certificate checking with a proven-sound checker: for every generated constructor call of the exact "
               "integer-exponent fragment the library's result is accepted only if its rational-function normal form over "
               "Z[i][atoms] equals the normal form of the operation applied to the operands; Lean proves that acceptance "
               "implies equality of values in every field of characteristic 0 (with any square root of -1) at every "
               "assignment where operands, operation and result are defined.",
    level_note="proof for the integer-exponent exact fragment (per generated input: certificate, not a proof about the C++ source); "
               "radical rewrites (rpowrat/powrat, power_num with fractional exponents, (x^-1)^b, nested pow folding with "
               "non-integer exponents) are covered by an independent numeric oracle only",
    technique="reflexive normaliser (ring/field_simp style) with Lean soundness proof; validate_mode certificates; "
              "independent exact Q(i) and numeric principal-branch oracles in the harness",
    partial=[
        "C07_full (def): value preservation including non-integer exponents over C with the principal branch — not proved; "
        "c07_certificate_sound covers add/sub/mul/div/neg/pow(integer)/addn/muln on the exact integer-exponent fragment",
    ],
    search_seeds=2,
)
