SPEC = dict(
    id="C34",
    level="proof",
    lean_props="SymVerif.Props.C34",
    driver="C34",
    harness="c34.cpp",
    theorems=[
        # the Assumptions constructor
        "SymVerif.C34.assumptions_sound",
        # ZeroVisitor
        "SymVerif.C34.is_zero_sound_true",
        "SymVerif.C34.is_zero_sound_false",
        "SymVerif.C34.is_nonzero_sound_true",
        "SymVerif.C34.is_nonzero_sound_false",
        # sign visitors
        "SymVerif.C34.is_positive_sound_true",
        "SymVerif.C34.is_positive_sound_false",
        "SymVerif.C34.is_negative_sound_true",
        "SymVerif.C34.is_negative_sound_false",
        "SymVerif.C34.is_nonnegative_sound_true",
        "SymVerif.C34.is_nonnegative_sound_false",
        "SymVerif.C34.is_nonpositive_sound_true",
        "SymVerif.C34.is_nonpositive_sound_false",
        # IntegerVisitor
        "SymVerif.C34.is_integer_sound_true",
        "SymVerif.C34.is_integer_sound_false",
        # is_even / is_odd
        "SymVerif.C34.is_even_sound_true",
        "SymVerif.C34.is_even_sound_false",
        "SymVerif.C34.is_odd_sound_true",
        "SymVerif.C34.is_odd_sound_false",
        # RealVisitor / ComplexVisitor / FiniteVisitor: the informative direction on real-valued semantics
        "SymVerif.C34.is_real_sound_false",
        "SymVerif.C34.is_complex_sound_false",
        "SymVerif.C34.is_finite_sound_false",
        "SymVerif.C34.is_infinite_sound_true",
        # get_args() vs. semantics (the lemmas every container rule rests on)
        "SymVerif.C34.evalR_add_args",
        "SymVerif.C34.evalR_mul_args",
    ],
    rule="poly (V <symbols>) <expr> (8%: random variable sets, polynomial-looking sums of products with spoilers) and q <query> (A <statements>) <expr>: 17 queries (even/odd mostly on shapes with definite parity: numbers, c*x*y, 2k*x + d) x random assumption sets (per symbol: none/complex/real/rational/"
         "integer x none/>0/<0/>=0/<=0/==0/!=0/two-sided/other numeric bounds; 4% inconsistent sets) x expressions "
         "(55% targeted at the combination rules: linear combinations, products, powers, one-argument functions, sums of "
         "constants; 35% random trees of depth 1-4 incl. Gaussian rationals, radicals, symbolic exponents, a few floats / "
         "infinities; leaves; Set/Relational/Boolean objects for the throwing paths). distinct = distinct op lines; "
         "non-trivial = all but the tags trivial-*; the answer distribution (T/F/I per query) is in impl_stats",
    not_covered=["is_polynomial: modelled (Model/Queries2.lean), compared on every run and judged by a derivative oracle "
                 "(a 'true' answer must have a vanishing 16th derivative in every variable); no theorem",
                 "is_rational / is_irrational / is_algebraic / is_transcendental: modelled and compared on every run, "
                 "oracle-checked, no theorem yet (irrationality of e and transcendence of pi, e are not in Mathlib)",
                 "ComplexVisitor rules that build new function objects (tan, cot, sec, csc, atan, atanh, acot, acoth) and "
                 "ZeroVisitor::bvisit(PrimePi): the driver answers SKIP:unmodelled",
                 "ComplexVisitor::bvisit(Add/Mul) on dictionaries that contain both a false and an indeterminate entry: the "
                 "answer depends on the hash order of the dictionary (driver: SKIP:unmodelled)",
                 "values outside the reals (complex assignments, infinities): covered by the oracle only",
                 "definedness: the theorems speak about assignments where the expression has a real value; answers at "
                 "points where it is zoo/nan are judged by the oracle (known finding C34-undef)"],
    assumptions=["vsexp::dump/parse (harness/sexp.h) faithfully transports the stored fields of the real objects",
                 "inputs satisfy Queries.wf (canonical stored-field facts; the driver rejects other inputs with bad-op:wf, "
                 "which would show up as a correspondence difference)"],
    level_text="Lean theorems over an executable model of the tribool algebra, the Assumptions constructor and the visitors of "
               "test_visitors.cpp: for every statement list, every assignment satisfying it, and every expression with a real "
               "value, a definite answer of is_zero/is_nonzero/is_positive/is_negative/is_nonnegative/is_nonpositive/is_integer/is_even/"
               "is_odd is true of the value, and an expression declared non-real/non-complex/infinite has no real value. The model is "
               "run against the real library on generated (query, assumptions, expression) triples every run; an independent "
               "oracle evaluates the expression exactly at admissible rational/Gaussian points and tests the predicate.",
    level_note="Semantics is real-valued (evalR): complex values, infinities and definedness are outside the theorems and are "
               "covered by the oracle. Fuel: the recursive visitors run with fuel size(e)+1; running out of fuel yields "
               "'indeterminate', about which nothing is claimed.",
    technique="induction on fuel with ordered-field facts (sums of positives, integer closure), get_args()/value lemmas, "
              "invariant proof for the Assumptions constructor (every elementary update is justified by its statement); "
              "differential correspondence + exact-evaluation oracle",
    partial=["is_rational/is_irrational, is_algebraic/is_transcendental, is_polynomial: modelled + correspondence + oracle, "
             "no theorem"],
)
