import sys
from pathlib import Path
sys.path.insert(0, str(Path(__file__).resolve().parent.parent / "tools" / "extract"))
from c12_formulas import fn as c12_formulas  # noqa: E402
from c14_llvm import fn as c14_llvm  # noqa: E402

_T = "SymVerif.C14."
SPEC = dict(
    id="C14",
    level="partial",
    lean_props="SymVerif.Props.C14",
    driver="C14",
    harness="c14.cpp",
    translators=[c12_formulas, c14_llvm],
    validate_mode=True,
    configs={"quick": ["llvm"], "thorough": ["llvm"]},
    run_timeout=3600,
    theorems=[_T + n for n in [
        "symbol_cse_first", "init_clears_state",
        "llvm_table_agree", "llvm_differs_by_design", "relational_predicates", "rewrites_agree", "llvm_kinds_cover_lambda",
        "compileT_correct", "initV_correct_plain", "initV_wellformed", "compileT_wellformed", "reinit_fresh",
        "init_ok_state_clean",
        "evalOp_fadd", "evalOp_fmul", "evalOp_square_eq_mul", "evalOp_call1", "evalOp_call2", "evalOp_exp2", "evalOp_powi",
        "evalOp_relational", "evalT_pw", "lower_add_shape",
    ]] + ["SymVerif.LLVMD." + n for n in [
        "exec_append", "exec_length", "exec_prefix", "mkFBin_ok", "mkFCmp_ok", "mkBop_ok", "mkNot_ok", "mkUIToFP_ok", "emitOp_ok",
        "compileT_sim", "compileTs_sim", "envOK_loads", "applyOuts_sim", "initV_plain", "initV_state_irrelevant",
        "WFfrom_append", "emitOp_wf", "compileT_wf", "compileTs_wf", "envOf_lt", "applyOuts_wf", "applyRepl_wf", "initV_wf",
    ]],
    partial=["C14_full (def, not asserted): LLVM's optimiser, instruction selection, JIT linking and the object-file round "
             "trip of dumps/loads are outside the kernel",
             "the CSE path has no value-level theorem (it would need the faithfulness of cse()'s factoring, property C37): "
             "for cse=true only well-formedness (initV_wellformed), state independence (reinit_fresh) and the exact IR "
             "correspondence / cse_agree oracle apply",
             "agreement of the generated code's value with evalG (lambda_double) is proved per node kind "
             "(llvm_table_agree, rewrites_agree, evalOp_* / evalT_pw / lower_add_shape), not as one theorem over all trees"],
    rule="one op = input symbols (random ordered subset of {x,y,z,x0,x1}) + 1-3 output expressions sharing subexpressions "
         "(random canonical trees over every node kind LLVMVisitor accepts: Add Mul Pow, 7 intrinsics, 15 external "
         "functions, the 12 RewriteTrigVisitor kinds, Sign, Max Min, relationals, And Or Xor Not, Contains, Piecewise, "
         "Infty, constants) + 1-2 input vectors; every op is compiled for cse off/on at optimisation levels 0,2 (quick) or "
         "0-3 (thorough), reloaded through dumps/loads, and with the float / long double visitors; 1 in 6 ops on a "
         "visitor whose previous init threw; failing inits (missing symbol / unsupported node); distinct = distinct op "
         "lines; non-trivial = all; tags n<#outputs>[-afterfail]-<top kinds>, !<failure kind>, fixed-*",
    not_covered=[
        "LLVM itself: the optimisation pipeline (O1-O3), instruction selection, MCJIT, the object cache used by "
        "dumps/loads - exercised by the oracles at every level, not modelled",
        "IEEE-754 rounding and libm accuracy (as C12)",
        "SymEngine::cse itself (C37): its output is an input of the model and of the theorem (hypothesis FaithfulT)",
        "the expression constructors used by RewriteTrigVisitor (div, tan, ...) and bvisit(Sign) (Eq, Lt, piecewise): the "
        "harness performs them with the real library and the model is given the tree actually visited",
        "LLVMFloatVisitor / LLVMLongDoubleVisitor code generation at IR level (same template; checked numerically only); "
        "long double needs MPFR for Rational / Constant leaves (absent from the llvm configuration: those inits throw)",
        "RealMPFR leaves, non-symbol inputs, integer exponents outside int32 (numeric_cast asserts)",
        "NaN inputs: fcmp one / maxnum / minnum differ from C's != / std::max / std::min on NaN (documented, not generated)",
    ],
    assumptions=[
        "the textual IR of the module handed to the JIT (LLVMPrintModuleToString in modify_execution_engine) is what "
        "init() built; at optimisation level 0 no pass has run on it",
        "llvm::IRBuilder<ConstantFolder> (LLVM 14) folds a binary operator / compare iff both operands are constants, a "
        "cast / not iff its operand is (llvm/IR/IRBuilder.h, ConstantFolder.h); APFloat add/mul are IEEE correctly rounded",
        "intrinsics llvm.sin/cos/exp/exp2/log/pow/fabs/floor/ceil/trunc/minnum/maxnum lower to the libm functions of the same name",
        "as C12 for the Float instantiation; tgamma/lgamma/erf/erfc values supplied by the harness",
        "SymEngine::cse is deterministic for identical arguments within one process",
    ],
    level_text="partial",
    level_note="Proved (any number structure, any prior visitor state): the code generator emits a well-formed SSA program "
               "(every operand a constant or an earlier result, every output defined; plain and CSE path) whose execution "
               "returns, for every input vector, the reference value of the operator tree of each output (plain path: "
               "compileT_correct, initV_correct_plain; IRBuilder's constant folding and the branch/phi code of Piecewise "
               "included), and a re-initialised visitor behaves like a fresh one once init clears its symbol tables; per "
               "node kind the emitted intrinsic / libm call / predicate and operand order is lambda_double's "
               "(llvm_table_agree, rewrites_agree: `decide` on the tables regenerated from llvm_double.cpp and visitor.h), "
               "the structural kinds are listed (llvm_differs_by_design).  Tied to the code by EXACT equality of the "
               "instruction sequence with the real module's IR at -O0, cse off and on.  NOT proved: a value-level theorem "
               "for the CSE path (needs C37).  NOT provable here: LLVM's optimiser, instruction selection, JIT and the "
               "dumps/loads object round trip (exercised at levels 0-3, cse on/off, reload, three float types by the "
               "oracles), IEEE rounding and libm.",
    technique="Lean 4: operator-tree lowering + SSA code generation with IRBuilder constant folding, simulation proof "
              "(run o compileT = evalT) by induction over operator trees; translated intrinsic/external/predicate table; "
              "certificate-mode correspondence on the real LLVM IR text",
)
