SPEC = dict(
    id="C23",
    level="proof",
    lean_props="SymVerif.Props.C23",
    driver="C23",
    harness="c23.cpp",
    theorems=[
    ],
    rule="gf <p> <op> <polys>: distinct = distinct op lines; non-trivial = all",
    not_covered=[],
    assumptions=[],
)
