SPEC = dict(
    id="C23",
    level="proof",
    lean_props="SymVerif.Props.C23",
    driver="C23",
    harness="c23.cpp",
    theorems=[
        # class invariant (coefficients < p, no trailing zero) established / preserved
        "SymVerif.C23.fromVec_wf", "SymVerif.C23.add_wf", "SymVerif.C23.sub_wf", "SymVerif.C23.neg_wf",
        "SymVerif.C23.mul_wf", "SymVerif.C23.mulAssign_wf", "SymVerif.C23.sqr_wf", "SymVerif.C23.addConst_wf",
        "SymVerif.C23.scale_wf", "SymVerif.C23.diff_wf", "SymVerif.C23.pow_wf", "SymVerif.C23.monic_wf",
        "SymVerif.C23.quo_wf", "SymVerif.C23.rem_wf", "SymVerif.C23.gcd_wf", "SymVerif.C23.powMod_wf",
        "SymVerif.C23.composeMod_wf", "SymVerif.C23.toPoly_injective",
        # functional correctness against Polynomial (ZMod p)
        "SymVerif.C23.add_spec", "SymVerif.C23.sub_spec", "SymVerif.C23.neg_spec", "SymVerif.C23.mul_spec",
        "SymVerif.C23.mulAssign_spec", "SymVerif.C23.sqr_spec", "SymVerif.C23.addConst_spec",
        "SymVerif.C23.scale_spec", "SymVerif.C23.pow_spec", "SymVerif.C23.eval_spec'", "SymVerif.C23.diff_spec",
        "SymVerif.C23.monic_spec", "SymVerif.C23.divmod_spec", "SymVerif.C23.quo_rem_spec'",
        "SymVerif.C23.opDivmod_error", "SymVerif.C23.gcd_spec", "SymVerif.C23.lcm_spec", "SymVerif.C23.isSqf_spec",
        "SymVerif.C23.pow_mod_spec", "SymVerif.C23.compose_mod_spec", "SymVerif.C23.addConstOrig_defect",
        # proven-sound certificates evaluated by the driver on every factorisation line
        "SymVerif.C23.checkMulBack_sound", "SymVerif.C23.irreducibleBrute_sound",
        "SymVerif.C23.factor_certificate_partial",
    ],
    partial=["SymVerif.C23.factor_certificate_partial"],
    rule="one op line = one GaloisFieldDict operation 'gf <p> <op> <coefficient vectors>' (operands go through from_vec); "
         "distinct = distinct op lines; non-trivial = every line (each calls the library once and evaluates the "
         "schoolbook oracle).  Tags: exh-bin-pN / exh-lite-pN / exh-un-pN = exhaustive enumeration for p in {2,3,5,7} "
         "(thorough: all pairs of polynomials of degree <= 6/4/2/2 for the 9 binary ops, all pairs of degree <= 3 for "
         "p=5 on mul/divmod/gcd, all polynomials of degree <= 9/5/4/4 for the unary ops incl. sqf_list and factor); "
         "smp-* = samples of the same spaces (quick); rnd-bigp / rnd-smallp = random primes < 2^16 (or 2..13), degree <= 30 "
         "(<= 12 for p=2); *-common = planted common factor (gcd/lcm/exact division); *-planted = product of random "
         "monic polynomials with multiplicities incl. multiples of p (sqf_list/factor); *-sqf = monic square-free "
         "(ddf/edf entry points); divzero, compose-zero-intermediate, const, eval-negative, fromvec, pow-small = boundary cases",
    exhaustive={"thorough": True, "quick": False},
    not_covered=[
        "non-prime moduli (mp_invert is modelled by Fermat's little theorem; generator emits primes only)",
        "operands with different moduli ('field must be same' exception)",
        "p = 2 factor degree >= 32 in gf_edf_zassenhaus ('1 << (n*N-1)' overflows; model returns E:range, generator stays <= 12)",
        "termination / success probability of the randomised equal-degree splitting (the model takes fuel and an explicit random stream; only the final factor sets are compared, they are unique)",
        "gf_multi_eval, gf_rshift, GaloisField (the Basic wrapper: hash/compare/get_args), operator/=(integer)",
        "that gf_sqf_list / gf_factor / gf_zassenhaus / gf_shoup always return outputs passing the certificates (C23_full is stated, not proved); they are certificate-checked on every generated case",
        "irreducibility certificate only when every factor needs <= 3000 trial divisions (flag #irr?) - the harness oracle uses Rabin's test there",
    ],
    assumptions=[
        "mp_invert(x, p) == x^(p-2) mod p for prime p and p not dividing x (GMP)",
        "mp_fdiv_r is the floor remainder; integer_class %= is the truncating remainder (GMP mpz_tdiv_r)",
        "std::ceil(std::sqrt(n/2)) for n <= 2^20 equals the integer ceiling square root (gf_ddf_shoup)",
        "two findings (fixed in /repo by 740fba7 and bb28e73) are modelled as fixed: operator+=(integer_class) on the zero polynomial, _gf_trace_map receiver/argument order",
    ],
    level_text="proof for ring ops, eval, diff, monic, divmod/quo/rem, gcd, lcm, pow, pow_mod, compose_mod and the class invariant; "
               "factorisation: proven-sound certificate checks (multiply-back, monic, brute-force irreducibility) evaluated on every generated case",
    level_note="C23_full (gf_factor always returns a correct factorisation) is stated as a def and not proved",
    technique="Lean 4 model over List Nat mirroring fields.cpp; abstraction toPoly into Mathlib's Polynomial (ZMod p); "
              "loop-invariant proof of the in-place division loop; correspondence testing against the real library with an independent schoolbook oracle",
)
