_U = "SymVerif.C21.UInt."
_Q = "SymVerif.C21.URat."
_E = "SymVerif.C21.UExpr."
SPEC = dict(
    id="C21",
    level="proof",
    lean_props="SymVerif.Props.C21",
    driver="C21",
    harness="c21.cpp",
    # whole-run limit; each op additionally runs under an 8 s SIGALRM watchdog inside the harness, so a
    # non-terminating library loop is reported as a crash of exactly that op (FAIL:crash)
    run_timeout=900,
    theorems=[
        "SymVerif.C21.canon_ext", "SymVerif.C21.fromDict_canon",
        _U + "add_comm_obj", _U + "add_assoc_obj", _U + "sub_add_cancel_obj", _U + "neg_neg_obj", _U + "mul_comm_obj", _U + "mul_add_obj", _U + "pow_succ_obj", _U + "divides_mul_obj",
        _Q + "add_comm_obj", _Q + "add_assoc_obj", _Q + "sub_add_cancel_obj", _Q + "neg_neg_obj", _Q + "mul_comm_obj", _Q + "mul_add_obj", _Q + "pow_succ_obj", _Q + "divides_mul_obj",
        _U + "add_spec", _U + "sub_spec", _U + "neg_spec", _U + "kronecker_spec", _U + "mul_spec",
        _U + "pow_spec", _U + "divides_spec", _U + "divides_zero", _U + "eval_spec", _U + "diff_spec",
        _U + "coeff_spec", _U + "degree_spec",
        _Q + "add_spec", _Q + "sub_spec", _Q + "neg_spec", _Q + "mulGeneric_spec", _Q + "mul_spec",
        _Q + "pow_spec", _Q + "divides_spec", _Q + "divides_zero", _Q + "eval_spec", _Q + "diff_spec",
        _Q + "coeff_spec", _Q + "degree_spec",
        _E + "mul_spec", _E + "pow_spec", _E + "eval_spec",
        "SymVerif.C21.kmul_ok", "SymVerif.C21.decode_spec", "SymVerif.C21.eq_zero_of_eval_eq_zero",
        "SymVerif.C21.D11_kron_as_found_wrong", "SymVerif.C21.D11_kron_repaired",
        "SymVerif.C21.D12_pow_zero_hangs", "SymVerif.C21.D17_divides_as_found_false_negative",
        "SymVerif.C21.D17_divides_as_found_wraps", "SymVerif.C21.D17_divides_repaired",
        "SymVerif.C21.D18_eval_zero_oob", "SymVerif.C21.D19_kmul_empty_oob",
    ],
    rule="one op line = one call of add/sub/neg/mul/pow/divides_upoly/eval/diff/get_coeff/get_degree/get_lc or an "
         "expression round trip (as_symbolic -> [unexpanded product/power] -> from_basic) on UIntPoly, URatPoly or "
         "UExprPoly(integer coefficients); distinct = distinct op lines; non-trivial = all (every line runs library "
         "code, is compared with the Lean model and, independently, with schoolbook arithmetic on dense GMP rational "
         "vectors); tags name the generator family (kron-allones = dense same-sign 2^k-1 coefficients, *-pow2adj = "
         "coefficients 2^k+-{0,1,2} of mixed sign, *-multilimb-* up to 400 (quick) / 2000 (thorough) bits, zero, "
         "cancel, divides-*, pow-*, roundtrip*)",
    not_covered=[
        "FLINT and Piranha polynomial classes (libraries absent)",
        "UExprPoly with symbolic (non-integer) coefficients or negative exponents; Expression arithmetic on Integers is "
        "assumed to be integer arithmetic",
        "from_basic on expressions other than sums/products/powers built from as_symbolic of a polynomial "
        "(oracle-only round trip: from_basic(as_symbolic(a)*as_symbolic(b)), from_basic(as_symbolic(a)**n); no Lean "
        "model of BasicToUPolyBase or Basic::expand)",
        "unsigned int overflow of degrees (degree sums >= 2^32, N*degree >= 2^32 bits in eval_bit); keys are Nat in the model",
        "__hash__/compare/__eq__ of the polynomial classes (C01/C02), multieval, printing",
        "polynomials with different generators (the 'variables must agree' exception)",
    ],
    assumptions=[
        "GMP mpz/mpq arithmetic = Int/Rat arithmetic (mpz shifts: <<= is *2^n, >>= on a non-negative value is floor division, "
        "mp_and with 2^N-1 on a non-negative value is mod 2^N, mp_tdiv_qr is Int.tdiv/tmod, mpq is kept canonical)",
        "std::map<unsigned,T> = strictly key-sorted association list (lower_bound/insert/erase/operator[]/reverse iteration)",
        "every polynomial object is built by from_dict/from_vec or returned by a modelled operation, hence canonical "
        "(fromDict_canon; the constructors assert is_canonical in the assert build)",
    ],
)

SPEC.setdefault("level_text", "Lean theorems (40, for all polynomials/exponents) over the executable model of ODictWrapper arithmetic, the Kronecker-substitution "
    "UIntDict::mul, pow, divides_upoly, eval, diff: results are canonical dictionaries denoting exactly the Mathlib Polynomial sum/product/power/"
    "derivative/eval; the model is tied to /repo by differential correspondence on every run and an independent schoolbook GMP oracle judges the real outputs.")
SPEC.setdefault("level_note", "Trusted: Lean kernel + Mathlib Polynomial; the correspondence harness; GMP. Not covered: degrees near 2^32, FLINT/Piranha classes, "
    "symbolic UExprPoly coefficients, from_basic on general expressions (oracle only).")
SPEC.setdefault("technique", "Lean 4 proofs over an executable model + differential correspondence + independent oracle")
