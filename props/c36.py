SPEC = dict(
    id="C36",
    level="partial",
    lean_props="SymVerif.Props.C36",
    driver="C36",
    harness="c36.cpp",
    validate_mode=True,
    theorems=[
        # shared infrastructure (C37): compositional semantics and the tree comparison
        "SymVerif.CSE.treeEquiv_sound",
        # generic TransformVisitor model
        "SymVerif.Rewrite.rewriteWith_value",
        "SymVerif.Rewrite.expRule_sound",
        "SymVerif.Rewrite.sinRule_sound",
        "SymVerif.Rewrite.cosRule_sound",
        # headline
        "SymVerif.C36.numer_denom_certificate_sound",
        "SymVerif.C36.judgeNumerDenom_ok",
        "SymVerif.C36.rewrite_as_exp_value",
        "SymVerif.C36.rewrite_as_sin_value",
        "SymVerif.C36.rewrite_as_cos_value",
        "SymVerif.C36.rewrite_certificate_sound",
        "SymVerif.C36.rewrite_as_exp_certificate_sound",
        "SymVerif.C36.rewrite_as_sin_certificate_sound",
        "SymVerif.C36.rewrite_as_cos_certificate_sound",
        "SymVerif.C36.judgeRewrite_ok",
        "SymVerif.C36.model_certificate_sound",
        "SymVerif.C36.trig_to_sqrt_value_partial",
        "SymVerif.C36.real_imag_certificate_value",
        # the laws hold over C (Mathlib)
        "SymVerif.C36.MCx_lawful",
        "SymVerif.C36.MCx_expLaws",
        "SymVerif.C36.MCx_trigLaws",
        # non-vacuity
        "SymVerif.C36.ex_numer_denom",
        "SymVerif.C36.ex_numer_denom_rejects",
        "SymVerif.C36.ex_rewrite_exp",
    ],
    rule="one call of one transformation on a random expression built through the public API; distinct = distinct op "
         "lines; all non-trivial. Tags: nd = as_numer_denom on rational-function-like trees (negative / rational / "
         "symbolic powers, nested quotients, atoms sin f exp log); nd-quotpow = sqrt(x/(y-3)); rexp = rewrite_as_exp on "
         "trees over the 12 trigonometric / hyperbolic classes; rsincos = rewrite_as_sin / rewrite_as_cos; tsqrt = the 24 "
         "patterns of trig_to_sqrt and non-matching inputs; conj = conjugate on products, integer and rational powers, "
         "the function classes it distributes over, log, abs, sign, symbols, Gaussian numbers; ri = as_real_imag on "
         "constant expressions (Gaussian numbers, pi, E, integer / rational / complex powers, the 12 classes, abs, exp); "
         "ri-powsum = sums containing integer powers 2..5 of (constant + q*I) plus further terms (nested sums with constants in real and imaginary parts); xexp = expand_as_exp (no class implements it: E:NotImplemented); *-fixed = boundary cases. impl_stats: op_*, "
         "points_judged, points_discarded_singular_or_near_cut, points_discarded_overflow, cases_without_judged_point.",
    not_covered=[
        "as_numer_denom on inputs with non-integer powers whose numerator/denominator were recombined "
        "((a/b)**e -> a**e/b**e, E**x*E**z -> E**(x+z), x*x**(1/2) -> x**(3/2)): the Lean checker answers "
        "SKIP:non-integer-powers-recombined when its certificate check fails on such an input; value checked by the "
        "numeric oracle at positive real points only",
        "as_real_imag: realness is certified only when re and im pass the conservative syntactic test realTree; the value "
        "re + I*im = e only when it follows by rational-function normalisation (otherwise SKIP: it needs the addition "
        "theorems of sin/cos/sinh/cosh, which are not in the checker); Lean statement real_imag_real_full is a def, not proved",
        "trig_to_sqrt: the 24 identities are an hypothesis (TrigSqrtLaws) of trig_to_sqrt_value_partial - Mathlib has no "
        "complex inverse trigonometric functions; tested numerically at generic complex points",
        "conjugate: certificate = equality with the model conjE (model_certificate_sound); the value statement "
        "conjugate_value_full is a def, not proved; tested numerically (value = complex conjugate of the input's value)",
        "expand_as_exp: not implemented by any class in this version (always NotImplemented); the driver checks just that",
        "values on branch cuts / at poles (discarded by the oracle, excluded by the theorems' definedness hypotheses)",
        "symbols in as_real_imag (the library throws NotImplemented for every Symbol), floats, infinities",
    ],
    assumptions=[
        "harness/sexp.h dumps the stored fields of inputs and results faithfully",
        "function applications are interpreted functionally; the interpretation satisfies CSE.Lawful (I*I=-1, power laws "
        "for integer shifts / multiples, negation, oddness/evenness of the listed classes), ExpLaws (exponential forms of "
        "the 12 classes, E != 0) and TrigLaws (shift by pi/2, double angle, UnevaluatedExpr = identity); all three are "
        "proved for C with Complex.exp/sin/cos/tan/sinh/cosh/tanh and Complex.cpow (MCx_lawful, MCx_expLaws, MCx_trigLaws)",
        "the Lean models asExp / asSin / asCos / trigToSqrt / conjE transcribe the rules of rewrite.cpp and functions.cpp; "
        "the correspondence run compares their output with the library's on every generated input (treeEquiv)",
    ],
    level_text="Certificate checking with a proven-sound checker plus rule models: for as_numer_denom the result (n, d) is "
               "accepted only if n/d equals the input up to the rational-function normaliser at every nesting level and "
               "neither has a negative top-level exponent; for rewrite_as_exp/sin/cos the library result must equal the "
               "result of the Lean model of the visitor, and Lean proves that the model preserves the value under the "
               "exponential / trigonometric laws, which are proved for C from Mathlib; for trig_to_sqrt and conjugate the "
               "result must equal the model's result (value of the model: hypothesis / not proved); for as_real_imag a "
               "positive certificate (syntactic realness + value by normalisation) where available.",
    level_note="proof for as_numer_denom (integer-exponent fragment and non-recombined powers), rewrite_as_exp, "
               "rewrite_as_sin, rewrite_as_cos; partial for trig_to_sqrt (laws assumed), conjugate and as_real_imag "
               "(certificate against the model / value only; numeric oracle for the rest)",
    technique="validate_mode certificates on top of the C37 tree comparison (treeEquiv); generic soundness theorem for a "
              "TransformVisitor-style rewriting with per-class rules; laws discharged over C with Mathlib; independent "
              "numeric oracle (own complex long double evaluator on the stored fields)",
    partial=[
        "trig_to_sqrt_value_partial: the 24 identities (TrigSqrtLaws) are an hypothesis, not proved for C",
        "conjugate_value_full (def): value of conjE is the conjugate of the value of the input - not proved",
        "real_imag_real_full (def): realTree e implies the value is real - not proved; real_imag_certificate_value proves "
        "the value part of an accepted certificate only",
        "numer_denom_certificate_sound covers what the checker accepts; inputs answered SKIP:non-integer-powers-recombined "
        "have no Lean statement",
    ],
    search_seeds=2,
)
