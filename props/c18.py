from tools.extract.c17_syntax import fn as c17_syntax

SPEC = dict(
    id="C18",
    level="partial",
    lean_props="SymVerif.Props.C18",
    driver="C18",
    harness="c18.cpp",
    validate_mode=True,
    translators=[c17_syntax],
    configs={"quick": ["assert"], "thorough": ["assert", "asan"]},
    run_timeout=2400,
    theorems=[
        "SymVerif.C18.scanWhile_spec",
        "SymVerif.C18.lexTok_good",
        "SymVerif.C18.lex_total_inbounds",
        "SymVerif.C18.lex_no_oob",
        "SymVerif.C18.lexAll_total",
        "SymVerif.C18.parse_lex_no_oob",
        "SymVerif.C18.lexAllS_fst",
        "SymVerif.C18.parse_eq_pure",
        "SymVerif.C18.parse_history_indep",
        "SymVerif.C18.run_eq_fresh",
    ],
    rule="call histories on ONE reused Parser / SbmlParser object: 2-8 byte strings per history; distinct = distinct op "
         "lines; non-trivial = all. Tags (sbml- prefix = SbmlParser): unterminated (63 fixed boundary strings framed by "
         "valid inputs), embedded-nul, long-identifier/-integer/-float/-whitespace/-highbytes (1e3..3e5 bytes), "
         "deep-parens / deep-parens-open / deep-unary / deep-calls / long-sum (nesting up to 3000, calls up to 400), "
         "logic-nonboolean (defect D17 inputs), nonfinite-rounding (defect D18 inputs), mixed / mixed-noconvert "
         "(valid strings from a grammar, 1-3 byte-level mutations incl. NUL / high bytes / control bytes / truncation, "
         "random bytes). Oracle: reused object == fresh object per input (class, dump, eq, hash); crashes/hangs/"
         "sanitizer reports by the runner; thorough repeats everything on the asan build.",
    not_covered=[
        "memory safety and termination of the generated C++ (tokenizer.cpp, parser.tab.cc, sbml variants) and of the "
        "semantic actions are NOT theorems: observed under assert + ASan/UBSan builds on the generated histories only",
        "SbmlParser: histories are run and judged by the reuse oracle and the sanitizers; the Lean model covers the "
        "main parser only (driver answers SKIP:sbml-parser-not-modelled)",
        "termination of the *model* grammar with the supplied fuel is observed (driver would print FAIL:model-fuel), "
        "not proved; lexing totality and bounds are proved",
        "coverage-guided fuzzing (libFuzzer) is not available offline; generation is grammar + mutation based",
        "evaluation blow-ups (9**9**9, gamma(10**30)) are excluded from generation: eager evaluation in the actions is "
        "not a parser property",
        "exceptions other than ParseError thrown by smart constructors inside actions are accepted as 'library "
        "exception' by the oracle and skipped by the model",
    ],
    assumptions=[
        "re2c-generated code writes YYMARKER before it reads it inside one lex() call (true of re2c's scheme: the "
        "marker is restored only on paths through the accepting state that saved it)",
        "std::string::operator[](size()) is the terminating NUL (C++11)",
        "bison never calls yylex again after END_OF_FILE and builds a fresh stack per yy::parser object",
    ],
    level_text="Partial. Proved (Lean 4) for the tokenizer specification over NUL-terminated buffers with cursors as "
               "buffer suffixes: lex terminates, never reads out of bounds, returns a token with a cursor that moved "
               "forward and still has the terminator ahead, or ParseError; the token loop over any byte string never "
               "reads out of bounds. Proved for the Parser object as a state machine: for EVERY state (any stale "
               "cursors, any previous result, after failed parses) parse(input) equals the fresh parser's answer, and "
               "whole histories equal the fresh answers. The generated C++ is tied by differential histories on a "
               "reused object vs fresh objects vs the model's accept/reject class, under assert and ASan/UBSan builds.",
    level_note="claimed partial: memory safety of generated code and of exception unwinding through bison's stack is "
               "runtime-observed only",
    technique="suffix-list cursor model with explicit oob error; NUL-ahead invariant; state-machine model with stale "
              "fields kept; certificate mode (accept/reject class per history element); sanitizer configuration",
    partial=["SymVerif.C18.C18_full"],
)
