import sys
from pathlib import Path
sys.path.insert(0, str(Path(__file__).resolve().parent.parent / "tools" / "extract"))
from c19_serial import fn as serial_codes  # noqa: E402

SPEC = dict(
    id="C20",
    level="partial",
    lean_props="SymVerif.Props.C20",
    driver="C20",
    harness="c20.cpp",
    validate_mode=True,
    translators=[serial_codes],
    # correspondence runs on the first config: "plain" (no assertions) is what users run and is where the loader
    # really constructs the non-canonical objects; asan/ubsan and the assert build are oracle-only
    configs={"quick": ["plain"], "thorough": ["plain", "asan", "assert"]},
    run_timeout=1500,
    theorems=[
        "SymVerif.C20.decode_total",
        "SymVerif.C20.decode_no_oob",
        "SymVerif.C20.read_checked",
        "SymVerif.C20.decode_typesafe",
        "SymVerif.C20.loaded_is_constructed",
        "SymVerif.C20.not_C20_full",
        "SymVerif.C20.witnesses_noncanonical",
        "SymVerif.C20.wAddZero_decodes",
        "SymVerif.C20.wPowOne_decodes",
        "SymVerif.C20.wMulNumKey_decodes",
        "SymVerif.C20.wInftyFive_decodes",
        "SymVerif.C20.wAndEmpty_decodes",
        "SymVerif.C20.wMaxEmpty_decodes",
        "SymVerif.C20.wRatTwoFour_decodes",
        "SymVerif.Codec.decT_recOK",
        "SymVerif.Codec.build_isA",
    ],
    partial=["C20_full (decode bs = ok e -> canonical e) is refuted, not proved: not_C20_full",
             "memory safety inside cereal/libstdc++/GMP on hostile lengths, recursion depth and bool bytes is observed at "
             "run time (ASan/UBSan), not proved"],
    rule="mutants of real dumps (type byte, type swap, first_seen, address aliasing, counts incl. 2^20..2^64-1, digit "
         "strings, truncation, bit flips, header/endianness, trailing bytes, splices, deletions; second-order mutants), "
         "hand-made non-canonical / degenerate / cast / back-reference / length streams, every type code, random bytes "
         "with and without a valid header, mutated DenseMatrix dumps, nesting-depth streams; distinct = distinct op "
         "lines; non-trivial = every op except tag mut-none",
    not_covered=["allocation behaviour between the harness cap (16 MiB per allocation) and real memory exhaustion",
                 "streams whose Symbol/FunctionSymbol names are not printable ASCII, ComplexDouble built from non-double "
                 "parts, Infty with a non-integer direction: the model answers SKIP:unmodelled (oracle still applies)",
                 "post-load operations other than dump, __str__, hash, __cmp__, eq, eval_double, dumps"],
    assumptions=["single allocations above 16 MiB fail with std::bad_alloc (harness operator new), std::length_error and "
                 "cereal::Exception escaping Basic::loads count as library exceptions"],
    level_text="partial",
    level_note="parser-level safety (totality, bounded nesting fuel, length-checked reads, sound casts) is proved on the "
               "model; the statement the property needs about loaded objects (canonical form) is proved FALSE with "
               "byte-string witnesses that are replayed on the real loader; crashes are runtime observations",
    technique="Lean 4 total decoder; induction on fuel; kernel-evaluated witnesses; mutation-based correspondence against "
              "the assertion-free build; ASan/UBSan oracle",
)
