import sys
from pathlib import Path
sys.path.insert(0, str(Path(__file__).resolve().parent.parent / "tools" / "extract"))
from c19_serial import fn as serial_codes  # noqa: E402

SPEC = dict(
    id="C19",
    level="proof",
    lean_props="SymVerif.Props.C19",
    driver="C19",
    harness="c19.cpp",
    validate_mode=True,
    translators=[serial_codes],
    configs={"quick": ["assert"], "thorough": ["assert", "asan"]},
    run_timeout=1500,
    theorems=[
        "SymVerif.C19.load_dumps",
        "SymVerif.C19.load_dumps_graph",
        "SymVerif.C19.encode_consumes_exactly",
        "SymVerif.C19.sharing_restored",
        "SymVerif.C19.matrix_load_dumps",
        "SymVerif.C19.consistent_of_nodup",
        "SymVerif.C19.exT_consistent",
        "SymVerif.C19.exE_ser",
        "SymVerif.Codec.decT_encT",
        "SymVerif.Codec.sem_toT",
    ],
    partial=["load_dumps: Interval, Derivative, Subs and Piecewise are in the model and in the correspondence but outside "
             "`Ser` (C19_full states the property for them; it is tested, not proved)"],
    rule="random real expressions over every serialisable class built through the public API and dumped with vsexp "
         "(rt-plain: separate objects; rt-share: equal subtrees are one object), real dumps re-loaded (ld-real-dump), "
         "Lean-encoded streams loaded by the real loader (corpus), DenseMatrix round trips, all 12x12 special double "
         "bit patterns in ComplexDouble, the class table for all type codes 0..129; distinct = distinct op lines; "
         "non-trivial = every op (each exercises dumps and/or loads)",
    not_covered=["RealMPFR / ComplexMPC and the Piranha/FLINT classes (not compiled in this sandbox: 'Unknown typeID')",
                 "big-endian hosts (the model decodes big-endian streams, the encoder side is little-endian only)",
                 "URatPoly has a save_basic overload but its load_basic overload is unreachable (not implemented loader); "
                 "NumberWrapper, FunctionWrapper, GaloisField, series: savers throw NotImplemented",
                 "dictionary keys that are eq() but structurally different (0.0 vs -0.0) in hand-made streams"],
    assumptions=["one address holds one object while dumps runs (RCPBasicAwareOutputArchive::_keep_alive)",
                 "x86-64 little-endian host, IEEE-754 doubles copied bit for bit by cereal"],
    level_text="proof",
    level_note="round trip proved on the byte-exact model for all classes in `Ser`; model tied to the code three ways "
               "(Lean-decode of real dumps + exact re-encoding, real loads of Lean-encoded streams, real loads(dumps(e)))",
    technique="Lean 4 model of the portable-binary codec with address sharing; mutual structural inductions; "
              "certificate-checking correspondence driver",
)
