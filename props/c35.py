SPEC = dict(
    id="C35",
    level="proof",
    lean_props="SymVerif.Props.C35",
    driver="C35",
    harness="c35.cpp",
    validate_mode=True,
    theorems=[
        # whole trees: refine with the repaired rule set preserves the value
        "SymVerif.C35.refine_value_partial",
        "SymVerif.C35.refineF_value",
        # the rules of RefineVisitor on a node whose argument is unchanged
        "SymVerif.C35.ruleOne_value",
        "SymVerif.C35.rulePow_value",
        "SymVerif.C35.maxRule_value",
        "SymVerif.C35.minRule_value",
        # SimplifyVisitor::simplify_pow
        "SymVerif.C35.simplifyPow_value",
        # TransformVisitor contexts and the raw constructors the model rebuilds with
        "SymVerif.C35.evalR_negRaw",
        "SymVerif.C35.evalR_sumRaw",
        "SymVerif.C35.evalR_prodRaw",
        # exact exponent arithmetic of the Pow rule
        "SymVerif.C35.numMul_val",
        # per-rule real-analysis facts
        "SymVerif.C35.pow_rule_pos",
        "SymVerif.C35.pow_rule_even",
        "SymVerif.C35.log_rule_pow",
        "SymVerif.C35.log_rule_perfect_power",
        # D16
        "SymVerif.C35.d16_as_coded",
        "SymVerif.C35.d16_witness",
    ],
    rule="refine|simplify (A <statements>) <expr> (2:1): expressions are one refinable piece (abs, sign, floor, ceiling, "
         "conjugate, max/min of 2-4 terms, nested powers (x**k)**n with even / odd / fractional k, log of powers and of "
         "integers, reciprocal trig functions to integer powers, f(abs(..)), f(sign(..))) over arithmetic of three symbols and "
         "pi; plus 8% nested powers with a non-real or symbolic inner exponent under x > 0 and 8% products f(u)**a*g(u)**b of a "
         "trig function and its reciprocal with the same argument (all six ordered pairs); sample values include 30, 100, 1/30, "
         "1/100; expressions over three symbols and "
         "pi, alone or inside a sum / product context, under random per-symbol assumption sets (domain x sign facts); "
         "distinct = distinct op lines; non-trivial = all but trivial-arith; impl_stats gives changed/unchanged results and "
         "the number of evaluated points",
    not_covered=["simplify over whole trees: the rule simplify_pow is proved (simplifyPow_value), the composition over the "
                 "raw trees refine returns is not",
                 "rules applied to an argument that refine itself changed (the queries then run on a rebuilt, re-canonicalised "
                 "tree): driver answers SKIP:unmodelled, the oracle still judges those inputs",
                 "complex values: the theorems are over the real semantics evalR; D16 lives in the complex plane and is shown "
                 "by d16_witness; the oracle evaluates in the complex plane",
                 "inexact (floating point) exponents in the Pow-of-Pow rule; Piecewise; Interval other than (-oo, oo)"],
    assumptions=["vsexp::dump/parse (harness/sexp.h) faithfully transports the stored fields of the real objects",
                 "the comparator of drv_c35 (normal forms of Model/NF.lean after normalising function arguments) is used to "
                 "decide that the library's re-canonicalised result and the model's raw result are the same expression; its "
                 "core (NF.equiv) is proven sound in Props/C07, the argument normalisation around it is trusted"],
    level_text="Lean theorems over an executable model of RefineVisitor/SimplifyVisitor built on the C34 query model: "
               "refine_value_partial - for every statement list, satisfying assignment and expression with a "
               "real value, the model's refine (repaired Pow rule) returns an expression with the same value; every "
               "modelled rewrite rule (abs, sign, floor, ceiling, conjugate, max, min, log of a power / of a perfect power, the repaired "
               "power-of-a-power rule, csc/sec/cot**-1) preserves the real value wherever the input has one, for every "
               "assignment satisfying the assumptions; the guards are discharged with the C34 soundness theorems. The model's "
               "result is compared with the library's result on every generated input (certificate mode), and an independent "
               "oracle compares the values of input and output at admissible rational / Gaussian points.",
    level_note="Defect D16 (the Pow-of-Pow rule ignores the parity of the inner exponent) is re-found by the oracle on the "
               "unpatched tree; the model carries both the rule as coded and the repaired rule and the driver prints "
               "SKIP:known-D16 where only the former matches, so the correspondence is green before and after the fix.",
    technique="case analysis per rule with C34 soundness as lemmas, Real.rpow_mul / Even.pow_abs / Real.log_rpow, exact "
              "rational arithmetic for the exponent product; certificate-mode correspondence + value oracle",
    partial=["refine_value_partial: real values, rule nodes whose argument is unchanged by refine",
             "simplify: rule-level theorem only"],
)
