SPEC = dict(
    id="C05",
    level="proof",
    lean_props="SymVerif.Props.C05",
    driver="C05",
    harness="c05.cpp",
    theorems=[
        # (a) + - * : total, exact value, normalised result, all nine ordered kind pairs
        "SymVerif.C05.add_correct",
        "SymVerif.C05.sub_correct",
        "SymVerif.C05.mul_correct",
        # (b) division: total for every pair (D10 was here), zoo / nan for an exact zero divisor
        "SymVerif.C05.div_correct",
        "SymVerif.C05.div_zero",
        # (c) integer powers of either sign: Number::pow and the free function pow()
        "SymVerif.C05.pow_int_correct",
        "SymVerif.C05.powTop_correct",
        "SymVerif.C05.powcomp_good",
        "SymVerif.C05.powrat_good",
        "SymVerif.C05.powint_neg_good",
        "SymVerif.C05.powint_zero_neg",
        # (d) normal forms are unique (equal value <=> equal tree dump)
        "SymVerif.C05.normal_form_unique",
        "SymVerif.C05.good_unique",
        "SymVerif.C05.add_comm_exact",
        "SymVerif.C05.mul_comm_exact",
        "SymVerif.C05.add_assoc_exact",
        "SymVerif.C05.mul_assoc_exact",
        "SymVerif.C05.mul_add_exact",
        "SymVerif.C05.sub_add_cancel_exact",
        # (e) loop invariant of pow_number (binary exponentiation with the unsigned long mask)
        "SymVerif.C05.pow_number_invariant",
        "SymVerif.C05.powNumber_good",
        # constructors and the mpq layer
        "SymVerif.C05.fromMpq_good",
        "SymVerif.C05.cFromMpq_good",
        "SymVerif.Num.Q.norm_canon",
        "SymVerif.Num.Q.toRat_norm",
        "SymVerif.Num.Q.canon_ext",
        # the defect D10 as it was in the source
        "SymVerif.C05.D10_orig",
    ],
    rule="one binary operation per line on two exact numbers (Integer / Rational / Complex tokens): "
         "add sub mul div pow(method) tpow(free function pow) ; distinct = distinct op lines; every line is non-trivial "
         "(value and normal form are recomputed from the tokens with plain GMP rationals). tags: small-KxK "
         "(exhaustive, numerators/denominators in [-4,4] quick / [-6,6] thorough, Gaussian parts in [-2,2]/[-3,3] "
         "over denominators <= 2/3), small-pow-K / small-tpow-K (every small value, exponents -6..6 / -9..9), "
         "multilimb-KxK (random, up to 2000 bits, 1/8 of the divisors are the exact zero), multilimb-pow-K, "
         "ctor (non-canonical constructor input)",
    not_covered=["exponents |e| > 100000 (the model answers SKIP; the real computation does not finish / GMP aborts)",
                 "exponents that do not fit long / unsigned long are modelled (E:Runtime) but not generated",
                 "non-integer exponents (Rational::powrat(Rational), rpowrat produce symbolic Pow objects: C07)",
                 "INTEGER_CLASS other than gmp (boostmp / gmpxx are C43)",
                 "mpz/mpq arithmetic itself (GMP is trusted: Q.add etc. are the mathematical definition of the canonical result)"],
    assumptions=["GMP's mpq_add/sub/mul/div/canonicalize return the canonical representative of the exact result",
                 "unsigned long is 64 bit (mask wrap-around in pow_number)"],
    level_text="Machine-checked proof (Lean 4 + Mathlib) over an executable model of integer.h/.cpp, rational.h/.cpp, "
               "complex.h/.cpp, number.cpp and the numeric prelude of pow(): for ALL exact operands of unbounded size "
               "and all nine ordered kind pairs, add/sub/mul/div succeed (no NotImplementedError), return exactly the "
               "Gaussian-rational value (val : Num -> C) and a normalised object (lowest terms, positive denominator, "
               "Integer when the denominator is 1, real when the imaginary part is 0); division by the exact zero gives "
               "zoo, 0/0 gives nan; integer powers of either sign (|e| <= 100000) are exact and normalised, 0**negative "
               "is zoo; the binary-exponentiation loop satisfies its invariant for every n < 2^64. The model is tied to "
               "the C++ by differential execution (exhaustive small universe + random multi-limb) and an independent "
               "GMP oracle.",
    level_note="Proved for the code as patched: Complex::rdiv(Rational) (D10) and Integer::pow_negint(0) (SIGFPE). "
               "Until those fix: commits are in /repo the oracle reports FAIL:throws (Rational/Complex) and FAIL:crash "
               "(pow i0 i-1).",
    technique="value semantics into Mathlib's C via canonical mpq pairs; per-cell unfolding of the double dispatch with a "
              "small tactic (qcanon/qpos/qval) that rewrites mpq operations to field operations and closes with ring; "
              "division cells through five value lemmas proved with field_simp; pow_number by induction on fuel with "
              "invariant p = x^(2^k), r = x^(n mod 2^k); uniqueness of normal forms from Rat.div_int_inj",
    partial=[],
)
