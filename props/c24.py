T = "SymVerif.C24."
SPEC = dict(
    id="C24",
    level="partial",
    lean_props="SymVerif.Props.C24",
    driver="C24",
    harness="c24.cpp",
    theorems=[T + n for n in [
        "index_inbounds", "add_correct", "emul_correct", "addScalar_correct", "mulScalar_correct",
        "transpose_correct", "mul_correct", "submatrix_correct", "rowExchange_correct", "rowMulScalar_correct",
        "rowAddRow_correct", "det_bareis_one", "det_bareis_two", "det_bareis_three", "LU_mul_back",
        "pge_witness", "ffgj_singular_witness", "exS_ok",
    ]] + ["SymVerif.Dense.luDecomp_spec", "SymVerif.Dense.submatrixDense_spec", "SymVerif.Dense.lu_product"],
    partial=[
        dict(name=T + "det_bareis_full", proved="det_bareis_one/two/three (closed forms n<=3)",
             why="the pivoting Bareiss branch (n>=4) is checked per sample against a cofactor determinant"),
        dict(name=T + "det_berkowitz_full", proved=None, why="Berkowitz recurrences: per sample vs cofactor determinant"),
        dict(name=T + "char_poly_full", proved=None, why="per sample: coefficients vs det(xI-A) at n+2 points"),
        dict(name=T + "inverse_full", proved=None, why="per sample: A*inverse = I with GMP rationals"),
        dict(name=T + "inverse_nonpivot_full", proved=None, why="per sample under the leading-minor precondition"),
        dict(name=T + "pivoted_LU_full", proved="LU_mul_back (the non-pivoting LU the pivoted one reduces to after P)",
             why="per sample: L*U = P*A"),
        dict(name=T + "ldl_full", proved=None, why="per sample: L*D*L^T = A"),
        dict(name=T + "cholesky_full", proved=None, why="per sample: L*L^T = A (rational square roots only)"),
        dict(name=T + "qr_full", proved=None, why="per sample: Q*R = A, Q^T*Q = I (rational square roots only)"),
        dict(name=T + "elimination_full", proved="rowExchange/rowMulScalar/rowAddRow_correct (the steps)",
             why="per sample: result row-equivalent (same rref) and echelon / reduced echelon"),
        dict(name=T + "solve_full", proved=None, why="per sample: A*x = b"),
    ],
    rule="one op = one DenseMatrix routine applied to rational matrices given entry by entry (dm <alg> RxC:e,.. ..); "
         "distinct = distinct op lines; every generated line is non-trivial (a routine call on concrete entries); "
         "tags = <routine>:<matrix family>, families: dense, sparse, strongly-regular (all leading minors non-zero), "
         "rank-deficient (product of thin factors), zero-leading-minor, zero-column, spd, sym-ldl, triangular, "
         "identity-or-zero, near-sym-or-diag, dominance-boundary, orthonormal-rational (QR), empty (0x0, 0xn, nx0), "
         "leading-zero / leading-zero-fixed (first pivot found late), *_alias (output matrix is an operand)",
    not_covered=[
        "entries other than Integer/Rational (symbols, Gaussian rationals, floats): the model's entry type is Q+{zoo,nan}",
        "results containing irrational square roots (Cholesky/QR of generic input) and the zoo+nan / nan/0 "
        "combinations (C06 defects): the model prints SKIP, only the oracle's multiply-back checks apply there",
        "transpose_dense with output == input (unprotected in the library), submatrix with step 0, eye() with a diagonal "
        "outside the matrix (huge allocation), jacobian/diff/eigen_values, CSR matrices (C25), "
        "DenseMatrix::rank() (throws NotImplementedError; rank is taken from reduced_row_echelon_form)",
        "fraction_free_gauss_jordan_elimination on matrices with fewer rows than columns (reads past the storage; "
        "docs/C24.md, secondary finding)",
        "proofs for joins/inserts/deletes, predicates, eliminations, Bareiss n>=4, Berkowitz, solvers, LDL/QR/"
        "Cholesky: model + correspondence + per-sample oracle only",
    ],
    assumptions=[
        "add/sub/mul/div/pow on Integer/Rational/ComplexInf/NaN behave as tabulated in Model/Dense.lean (probed; "
        "the harness compares every entry, so a change shows up as a correspondence difference)",
        "the model is /repo plus the two repairs of docs/C24.md (pivot row `index`; throw instead of assert)",
    ],
    search_seeds=2,
)

SPEC.setdefault("level_text", "Partial proof-level claim: Lean theorems (21) over the executable model of ~70 dense_matrix.cpp routines prove in-bounds indexing, that "
    "add/mul/transpose/submatrix/row operations equal their Mathlib Matrix counterparts, the 1-3 dimensional Bareiss determinants, and L*U = A for the "
    "Doolittle LU under its own non-zero-pivot precondition; the remaining algorithms (eliminations, inverses, Berkowitz, char poly, LDL, QR, Cholesky, solvers) "
    "are tied by exact correspondence every run and judged by an independent GMP oracle (multiply-back, A*x=b, A*inv=I, cofactor determinant).")
SPEC.setdefault("level_note", "Trusted: Lean kernel + Mathlib Matrix; harness and its GMP oracle. Eleven full statements are kept as defs (not proved) and decided per sample by the oracle. "
    "Entries restricted to Integer/Rational; sizes <= 6.")
SPEC.setdefault("technique", "Lean 4 proofs over an executable model + differential correspondence + independent oracle")
