SPEC = dict(
    id="C29",
    level="proof",
    lean_props="SymVerif.Props.C29",
    driver="C29",
    harness="c29.cpp",
    theorems=[
        "SymVerif.C29.lt_spec",
        "SymVerif.C29.le_spec",
        "SymVerif.C29.gt_spec",
        "SymVerif.C29.ge_spec",
        "SymVerif.C29.le_not_lt",
        "SymVerif.C29.ge_eq_le",
        "SymVerif.C29.gt_eq_lt",
        "SymVerif.C29.eq_symm",
        "SymVerif.C29.ne_not_eq",
        "SymVerif.C29.ne_symm",
        "SymVerif.C29.order_guard",
        "SymVerif.C29.lt_asymm_rel",
        "SymVerif.C29.lt_trans_rel",
        "SymVerif.C29.le_total_rel",
        "SymVerif.C29.le_antisymm_rel",
        "SymVerif.C29.sub_sign",
        "SymVerif.C29.eqNum_rv",
        "SymVerif.C29.D5_orig",
        "SymVerif.C29.toySpec",
    ],
    rule="one relation per line on two numbers: eq ne lt le gt ge (constructor called on the numbers) and "
         "seq sne slt sle sgt sge (constructor called on symbols x, y, then subs {x:a, y:b}). The complete table of "
         "ordered pairs of 36 real representatives (integers incl. 2^53, 2^53+1, multi-limb; dyadic and non-dyadic "
         "rationals; 17 finite doubles incl. +-0.0, 5e-324, +-1e300, values equal to the exact ones; oo, -oo) x 12 "
         "relations is generated in both tiers (tags table-KxK / subs-table-KxK), plus guard cases (complex, zoo, nan, "
         "inf/nan doubles; tag guard) and random pairs (tag random-KxK, 1/6 with equal operands). The oracle compares "
         "the exact rational values (a finite double is an exact rational) extended by +-oo.",
    exhaustive=dict(quick=True, thorough=True),
    not_covered=["comparison of a double with an exact number that is NOT exactly representable in binary64 (the "
                 "library converts with mpz_get_d/mpq_get_d first, e.g. Gt(1/3, 0.3333333333333333) is False): outside "
                 "the hypotheses (ConvOK); the harness counts these as skipped_inexact_conversion",
                 "inf / nan doubles as operands (not real numbers; Lt(real_double(inf), oo) is True): compared with the "
                 "model only",
                 "relations on non-numeric arguments (they stay symbolic); only substitution of numbers for two symbols "
                 "is exercised (s-variants)",
                 "Eq between an exact and a floating number of equal value is structurally False (Eq(1, 1.0)); the "
                 "property claims symmetry and Ne = not Eq only"],
    assumptions=["IEEE binary64 (FloatSpec): x == y compares values; for finite x, y the rounded difference x - y is "
                 "negative / zero exactly when the exact difference is"],
    level_text="Machine-checked proof (Lean 4 + Mathlib) over an executable model of the numeric branches of "
               "Eq/Ne/Lt/Le/Gt/Ge (logic.cpp) and of Number::sub for every kind pair: for all real numbers of all "
               "kinds (Integer, Rational, finite RealDouble, +oo, -oo), Lt/Le/Gt/Ge return true exactly when the "
               "relation holds between the values in the extended reals (rv : Num -> EReal), hence Le(a,b) = not "
               "Lt(b,a) and Ge(a,b) = Le(b,a); Eq and Ne are symmetric and negations of each other for all numbers "
               "of all kinds; complex/zoo/nan operands make the order relations throw. Floats are an arbitrary type "
               "with the IEEE facts of FloatSpec as hypotheses. Tied to the C++ by the complete table of ordered pairs "
               "of real representatives x 12 relations compared in both tiers.",
    level_note="Proved for the code as patched for D5 (Le returned is_negative(lhs - rhs) only: Le(1, 1.0) = False). "
               "D5_orig proves the defect for the unpatched branch.",
    technique="sub_sign: for every ordered pair of real kinds the sign/zero test of a.sub(b) equals the order/equality "
              "of the values (25 cells); Lt/Le follow in a few lines; EReal from Mathlib",
    partial=[],
)
