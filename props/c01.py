import sys
from pathlib import Path
sys.path.insert(0, str(Path(__file__).resolve().parent.parent / "tools" / "extract"))
from c01_typecodes import fn as typecodes_translator  # noqa: E402

SPEC = dict(
    id="C01",
    level="proof",
    lean_props="SymVerif.Props.C01",
    driver="C01",
    harness="c01.cpp",
    translators=[typecodes_translator],
    theorems=[
    ],
    rule="",
    not_covered=[],
    assumptions=[],
)
