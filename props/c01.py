import sys
from pathlib import Path
sys.path.insert(0, str(Path(__file__).resolve().parent.parent / "tools" / "extract"))
from c01_typecodes import fn as typecodes_translator  # noqa: E402

SPEC = dict(
    id="C01",
    level="proof",
    lean_props="SymVerif.Props.C01",
    driver="C01",
    harness="c01.cpp",
    translators=[typecodes_translator],
    theorems=[
        "SymVerif.C01.hash_congr_partial",
        "SymVerif.C01.eq_imp_identical",
        "SymVerif.C01.hash_add_perm",
        "SymVerif.C01.eq_symm_partial",
        "SymVerif.C01.eq_refl_partial",
        "SymVerif.C01.uset_no_dup",
        "SymVerif.C01.d1_witness",
        "SymVerif.C01.d1_witness_nested",
        "SymVerif.C01.C01_full_false",
        # tie of the generated tables to the proofs (re-checked on every regeneration)
        "SymVerif.Expr.builtin_kind_none",
        "SymVerif.Expr.builtinCodes_nodup",
        "SymVerif.Expr.table_codes_nodup",
    ],
    partial=[
        dict(full="SymVerif.C01.C01_full", proved="SymVerif.C01.hash_congr_partial",
             excluded="noSignedZero (a double -0.0 anywhere: defect D1, negation proved in C01_full_false) and "
                      "noNaN (a NaN double anywhere: such an expression is eq to nothing, not even itself, so the "
                      "property is vacuous there; the exclusion is needed because RCPBasicKeyLess is not an order on "
                      "NaN, D3)"),
    ],
    rule="ops: `hash e` (64-bit value), `eq a b`, `pair a b` (eq + both hashes) on canonical dumps of real "
         "expressions built through the public API, compared with the Lean model; `opair kind seed` builds a pair "
         "along two construction paths through the API (15 kinds: a+b/b+a, nested/flat, x*x/x**2, sub/div forms, "
         "0.0/-0.0, set insertion orders, parse(str(e)), independent rebuild, expand, number paths, subs round "
         "trip, exotic classes, unrelated) and checks eq => equal hash on the real objects. distinct = distinct op "
         "lines; non-trivial = all (every op evaluates hash/eq on at least one composite or boundary value); tags "
         "give the kind / class distribution.",
    not_covered=[
        "classes outside the model (oracle only, no theorem): Dummy, Derivative, Subs, Piecewise, ConditionSet, "
        "ImageSet, FunctionWrapper, NumberWrapper, Tuple, all polynomial classes (D2: MIntPoly constant over {x} vs "
        "{y}), series, matrix expressions, RealMPFR/ComplexMPC (not configured)",
        "Intersection and Complement are modelled and proved about, but harness/sexp.h cannot rebuild them, so they "
        "have no correspondence ops",
        "Xor is modelled as an RCPBasicKeyLess-ordered sequence (what logical_xor produces); a Xor built directly "
        "from an unsorted vec_boolean is outside the model",
        "expressions with a NaN double nested inside an ordered container (Mul/Add/set keys): the container order "
        "then depends on the insertion history (D3) and is not reproduced",
        "symbol / function names containing spaces or parentheses (wire format), non-UTF-8 names",
        "the hash_ == 0 cache of Basic::hash (value-irrelevant) and thread-safety of the cache (C41)",
    ],
    assumptions=[
        "libstdc++ caches hash codes in unordered_map nodes for RCPBasicHash (non-noexcept functor), so "
        "umap_basic_num::find succeeds iff some key has the same hash and is eq; the model's Add::__eq__ uses that",
        "GMP mpz_get_si / mpz_get_ui limb semantics as documented (64-bit limbs, long = 64 bit)",
        "char is signed (x86-64 SysV) in hash_combine_impl(std::string)",
    ],
    level_text="machine-checked proof (Lean 4) of the property on the executable model for all well-formed "
               "expressions without -0.0 / NaN doubles; bit-exact correspondence of the model with Basic::hash / eq",
    technique="Lean 4 model mirroring every __hash__/__eq__ + structural-induction proofs; translator for the "
              "TypeID numbering and class kinds; differential testing of model vs library on 64-bit hash values; "
              "property oracle on API-built construction-path pairs",
)
