T = "SymVerif.C30."
SPEC = dict(
    id="C30",
    level="partial",
    lean_props="SymVerif.Props.C30",
    driver="C30",
    harness="c30.cpp",
    validate_mode=True,
    theorems=[T + n for n in [
        # closed forms of degree <= 2 and the degree dispatch (model functions run by the driver)
        "linear_sound_complete", "quadratic_sound_complete", "quadratic_repeated", "solvePoly_sound_complete",
        "evalK_polyK_trim", "trim_getLast_ne_zero",
        # exact branches of the cubic (constant term 0, discriminant 0)
        "cubic_exact_sound_complete", "cubic_triple_root", "cubic_double_root",
        # certificate checker run on every returned set (all degrees, elements with square roots of rationals)
        "certPoly_sound", "certPoly_sound_complex", "checkFactor_sound", "toRP_sound", "toRPs_sound",
        "ev_norm", "ev_mul", "invQ_sound", "isNonZero_sound", "sqC_mul_self", "rtC_pow",
        # realness decisions used for the domain Reals
        "isRealRP_sound", "isNonRealRP_sound", "sqC_real", "realness_sound_complex",
        # rational equations
        "rational_excludes_poles", "rational_solution_set",
        # Cardano / Euler: the formulas produce roots (polynomial identities)
        "cardano_root_check", "cardano_root_check_omega", "quartic_depress", "euler_root_check",
        # linsolve
        "linsolve_unique_partial", "linsolve_solution_unique",
    ]],
    partial=[
        dict(name=T + "C30_cubic_full", proved="cardano_root_check(_omega), euler_root_check, quartic_depress: each returned "
             "Cardano/Euler value is a root", why="completeness (the three/four values exhaust the roots, branch pairing) is "
             "not proved in general; per returned set it is decided by the proven certificate (certPoly_sound) when the "
             "elements use square roots of rationals only, numerically otherwise"),
        dict(name=T + "C30_linsolve_full", proved="linsolve_unique_partial (checked answer solves A x = b) + "
             "linsolve_solution_unique (uniqueness for det A != 0)",
             why="the fraction-free Gauss-Jordan elimination itself is not proved correct for all n; the model's elimination "
                 "result is compared entry by entry with the library and multiplied back on every sample"),
        dict(name="trig", proved=None, why="linear trigonometric equations: numeric oracle only (no model)"),
    ],
    rule="one op = one solve()/linsolve() call on the real library: `poly <C|R> c0,..,cn` (rational coefficients, degree <= 4 "
         "after dropping leading zeros, also the zero polynomial and constants), `rat <C|R> n1 d1` = solve(n1/d1), "
         "`rat2 <C|R> n1 d1 n2 d2` = solve(n1/d1 + n2/d2), `lin|lineq n rows b` = linsolve on a non-singular n x n rational "
         "system (matrix form / equation form, n = 1..5), `trig a1 b1 a2 b2 c` = solve(a1 sin x + b1 cos x + a2 sin 2x + "
         "b2 cos 2x + c), `trigt a c` = solve(a tan x + c), `trign a b cre cim` = solve(a sin x + b cos x + (cre + cim I)) with "
         "non-real solutions (|c| > sqrt(a^2+b^2) or complex c). distinct = distinct op lines; trivial = none (every op calls the "
         "solver). tags: poly:roots-d<k>-<root kinds q rational, m repeated, z zero, s surd pair, c complex pair>, "
         "poly:random-d<k>, poly:quartic-biquadratic (ff = 0), poly:quartic-g0, poly:cubic-delta1-zero, poly:repeated "
         "(delta = 0), poly:leading-zeros, poly:smallint, poly:fixed; rat:coprime / rat:common-factor / rat2:two-fractions / "
         "rat2:poly-plus-fraction / rat2:pole-cancelled; lin:/lineq: dense-int, sparse-int (zero pivots), rational, "
         "antidiagonal (pivoting in every column), lin:singular (rank deficient: the library must throw); trig:sin-cos-const, trig:tan, trig:double-angle; trign:cos-real-rhs / sin-real-rhs / complex-rhs / "
         "sin-cos-real-rhs / sin-cos-complex-rhs (members substituted back, both analytic families required); known:F7-*, known:F8-* = "
         "families that exhibit the recorded findings (op lines end in #F7 / #F8)",
    not_covered=[
        "symbolic (non-numeric) coefficients, degree > 4 (ConditionSet), inequalities, Unequality, FLINT factorisation path "
        "(library not configured with FLINT)",
        "domains other than the universal set and Reals (intervals, Integers, ...)",
        "returned elements with cube roots / nested radicals (Cardano, Euler, nested biquadratic): checked numerically by "
        "the Lean driver (complex Float evaluation, residual <= 1e-5 * scale, number of distinct values = number of "
        "distinct roots) and by the harness oracle, not by the proven certificate; the evidence field impl_stats counts "
        "certificate:exact vs certificate:numeric",
        "the set bookkeeping of the driver around the certificate (members of Union / Intersection(Reals,.) / Complement "
        "trees, comparison with the numerator roots minus poles) is executable specification, cross-checked by the "
        "independent numeric oracle, not proved; its primitive decisions are proved (zero test isZero_sound, non-zero "
        "isNonZero_sound, real / non-real isRealRP_sound / isNonRealRP_sound)",
        "singular linear systems are only checked for refusal (SymEngineException 'Matrix is rank deficient', model "
        "LinErr.singular); under-/over-determined systems are not generated",
        "solve(trig equation, x, reals()): unbounded recursion between Reals::set_intersection and set_intersection "
        "(stack overflow, docs/C30.md F5); op `trigR` exists for replay, it is not generated",
        "hyperbolic equations (sinh/cosh): is_a_LinearArgTrigEquation accepts them, solve_trig cannot handle them "
        "(assertion / EmptySet); outside the property text",
    ],
    assumptions=[
        "the model is /repo plus docs/patches/C30_solve_subsolve_domain_and_poles.diff (sub-solves of the cubic/quartic "
        "over the full domain; products with a pole go to solve_rational) and docs/patches/"
        "C30_mul_is_canonical_complex_coef.diff (assertion predicate only)",
        "expression semantics: b^(n/d) denotes (rt d b)^n for a root function with (rt d x)^d = x, the imaginary unit is "
        "rt 2 (-1); satisfied by the principal roots of C (rtC_pow)",
        "realness decisions of the driver assume principal square roots (sqrt r real for r >= 0)",
        "the auxiliary complex solve of the numerator used as certificate input comes from the same library call "
        "solve(N, x); it is untrusted: the driver verifies it (factorisation certificate or numeric count)",
    ],
    level_text="Machine-checked proof (Lean 4 + Mathlib) for (1) the closed forms of degree <= 2 and the degree dispatch of "
               "the model (exactly the root set over every field of characteristic 0 with square roots, all zero patterns "
               "of the coefficients), (2) a certificate checker executed on every set returned by the real library: if "
               "the returned elements evaluate in Q[sqrt(.)] and lc*prod (X - r_i)^{m_i} equals the input polynomial "
               "coefficientwise, then the denoted numbers are exactly the roots (any field with roots, in particular C "
               "with principal roots) - degrees 1..4, (3) pole exclusion of solve_rational on finite root lists, (4) "
               "soundness of the Cardano and Euler formulas as polynomial identities. Cubic/quartic completeness, linsolve "
               "elimination and trigonometric equations are tied by differential/certificate execution plus an independent "
               "numeric oracle (Durand-Kerner, Sturm count, exact gcd / square-free part on GMP rationals).",
    level_note="certificate mode: the driver prints ok only if the returned set passed the certificate (exact) or the "
               "numeric replacement check; model closed forms (Surd) are additionally compared in canonical prime-radical "
               "normal form with the returned elements wherever the model is exact",
    technique="formal multiquadratic algebra (lists of rational multiples of square-root monomials) with a proven "
              "homomorphic evaluation; mutual structural induction over the expression tree for the evaluator; Horner-form "
              "lemma for multiplication by (X - r); linear_combination for Cardano/Euler; validate-mode driver with exact and "
              "Float domains sharing one set-comparison routine",
    search_seeds=1,
    run_timeout=1800,
)
