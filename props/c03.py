SPEC = dict(
    id="C03",
    level="proof",
    lean_props="SymVerif.Props.C03",
    driver="C03",
    harness="c03.cpp",
    theorems=[
    ],
    rule="one op = one call of add/sub/mul/div/pow/neg/sqrt/cbrt/add(vec)/mul(vec) on operands that the "
         "generator built bottom-up through the real API (depth <= 4 quick, <= 6 thorough) from integers (small, "
         "2^64, 10^20, 2^128), rationals, Gaussian rationals, x y z, pi E EulerGamma, numeric radicals "
         "(base x rational exponent grid), f(x) g(x,y) sin(x) log(y); or one `canon` op = a structurally given, "
         "mostly non-canonical Add/Mul/Pow/Rational/Complex node whose is_canonical verdict is compared; or one "
         "oracle-only op (floats, oo, nan operands; assertion/is_canonical oracle only). distinct = distinct op "
         "lines; non-trivial = all. tags: <family>/<op>:<class of operand 1>-<class of operand 2>; families: "
         "boundary, radical, merge (b**e1 * b**(c-e1)), merge3, powstruct, cancel, canon:<class>, oracle-only",
    not_covered=["floating point operands (RealDouble/ComplexDouble/MPFR): oracle-only ops, no model",
                 "Infty/NaN operands (they occur as results only)",
                 "exponents beyond +-4096 and integers beyond 400 bits (model cap / generator bound)",
                 "inputs whose result depends on the std::map iteration (hash) order: the driver computes both "
                 "ascending and descending key order and prints SKIP:order-dependent when they differ (4 of 321k "
                 "thorough ops); that is a C04 matter",
                 "function constructors, expand, subs, diff, series, solve, sets, logic: covered only by the "
                 "assertion oracle of their own work packages",
                 "Add::as_two_terms / Mul::as_two_terms (depend on begin(); not called by constructors)"],
    assumptions=["the model iterates Mul dictionaries in key order where the library iterates in hash order; "
                 "agreement is tested by the correspondence, not proved",
                 "mpz_root/mp_pow_ui/mpq arithmetic of GMP agree with the model's iroot/Nat.pow/Q arithmetic"],
    level_text="proof for programs over add/sub/neg/mul/div/pow/sqrt/cbrt/add(vec)/mul(vec) on the exact fragment",
)
