SPEC = dict(
    id="C03",
    level="proof",
    lean_props="SymVerif.Props.C03",
    driver="C03",
    harness="c03.cpp",
    theorems=[
        "SymVerif.C03.api_canon", "SymVerif.C03.api_canon_add", "SymVerif.C03.spec",
        "SymVerif.C03.addE_inv", "SymVerif.C03.addE_canon", "SymVerif.C03.addN_inv", "SymVerif.C03.addN_canon",
        "SymVerif.C03.mulEO_inv", "SymVerif.C03.negEO_inv", "SymVerif.C03.subEO_inv", "SymVerif.C03.powEO_inv",
        "SymVerif.C03.divEO_inv", "SymVerif.C03.sqrtEO_inv", "SymVerif.C03.cbrtEO_inv", "SymVerif.C03.mulNO_inv",
        "SymVerif.C03.mulE_canon", "SymVerif.C03.powE_canon", "SymVerif.C03.divE_canon", "SymVerif.C03.subE_canon",
        "SymVerif.C03.negE_canon", "SymVerif.C03.sqrtE_canon", "SymVerif.C03.mulN_canon",
        "SymVerif.C03.spec_all", "SymVerif.C03.api_canon_partial",
        "SymVerif.Arith.radShape", "SymVerif.Arith.powerExpOK", "SymVerif.Arith.rpowrat_fix",
        "SymVerif.Arith.key_inj", "SymVerif.Arith.inv_canon", "SymVerif.Arith.mulFromDict_inv",
        "SymVerif.Arith.addFromDict_inv", "SymVerif.Arith.addDictAddTerm_ok", "SymVerif.Arith.addMergeLoop_ok",
        "SymVerif.Arith.coefDictAddTerm_ok", "SymVerif.Arith.addCore_inv",
        "SymVerif.Arith.step_mulF", "SymVerif.Arith.step_datNew", "SymVerif.Arith.step_datFound",
        "SymVerif.Arith.step_powerNum", "SymVerif.Arith.step_powerNumLoop", "SymVerif.Arith.step_rpowrat",
        "SymVerif.Arith.step_powF", "SymVerif.Arith.step_powGeneric",
    ],
    partial=["noBadCast is not a separate theorem: every theorem has the form `f ... = .ok r -> inv r`; that the model "
             "never returns Err.badCast / Err.assert on reachable inputs is established by the correspondence only",
             "the theorems are about inv = canon && strong (the library's is_canonical plus the per-factor clauses "
             "that make it inductive); inputs that pass is_canonical but not `strong` (never produced by the "
             "constructors, e.g. Mul(3,{2:3/2})) are outside the theorem, witness in Props/C03.lean"],
    level_note="unconditional: api_canon - every value of every program over add/sub/neg/mul/div/pow/sqrt/cbrt/"
               "add(vec)/mul(vec) of the model satisfies inv, hence Add/Mul/Pow/Rational/Complex::is_canonical on "
               "every node, for both dictionary iteration orders and every recursion fuel. Other API families: "
               "assertion oracle of their own work packages only.",
    technique="executable Lean model of add.cpp/mul.cpp/pow.cpp/rational.cpp mirrored branch by branch; "
              "correspondence on tree dumps; invariants by induction on recursion fuel",
    rule="one op = one call of add/sub/mul/div/pow/neg/sqrt/cbrt/add(vec)/mul(vec) on operands that the "
         "generator built bottom-up through the real API (depth <= 4 quick, <= 6 thorough) from integers (small, "
         "2^64, 10^20, 2^128), rationals, Gaussian rationals, x y z, pi E EulerGamma, numeric radicals "
         "(base x rational exponent grid), f(x) g(x,y) sin(x) log(y); or one `canon` op = a structurally given, "
         "mostly non-canonical Add/Mul/Pow/Rational/Complex node whose is_canonical verdict is compared; or one "
         "oracle-only op (floats, oo, nan operands; assertion/is_canonical oracle only). distinct = distinct op "
         "lines; non-trivial = all. tags: <family>/<op>:<class of operand 1>-<class of operand 2>; families: "
         "boundary, radical, merge (b**e1 * b**(c-e1)), merge3, powstruct, cancel, canon:<class>, oracle-only",
    not_covered=["floating point operands (RealDouble/ComplexDouble/MPFR): oracle-only ops, no model",
                 "Infty/NaN operands (they occur as results only)",
                 "exponents beyond +-4096 and integers beyond 400 bits (model cap / generator bound)",
                 "inputs whose result depends on the std::map iteration (hash) order: the driver computes both "
                 "ascending and descending key order and prints SKIP:order-dependent when they differ (4 of 321k "
                 "thorough ops); that is a C04 matter",
                 "function constructors, expand, subs, diff, series, solve, sets, logic: covered only by the "
                 "assertion oracle of their own work packages",
                 "Add::as_two_terms / Mul::as_two_terms (depend on begin(); not called by constructors)"],
    assumptions=["the model iterates Mul dictionaries in key order where the library iterates in hash order; "
                 "agreement is tested by the correspondence, not proved",
                 "mpz_root/mp_pow_ui/mpq arithmetic of GMP agree with the model's iroot/Nat.pow/Q arithmetic"],
    level_text="proof for programs over add/sub/neg/mul/div/pow/sqrt/cbrt/add(vec)/mul(vec) on the exact fragment",
)
