import sys
from pathlib import Path
sys.path.insert(0, str(Path(__file__).resolve().parent.parent / "tools" / "extract"))
from c41_statics import fn as statics_translator  # noqa: E402

SPEC = dict(
    id="C41",
    level="partial",
    lean_props="SymVerif.Props.C41",
    driver="C41",
    harness="c41.cpp",
    translators=[statics_translator],
    configs={"quick": ["threadsafe"], "thorough": ["threadsafe", "tsan"]},
    run_env={"tsan": {"TSAN_OPTIONS": "halt_on_error=1:abort_on_error=1:second_deadlock_stack=1"}},
    run_timeout=2400,
    theorems=[
        "SymVerif.C41.hash_inv",
        "SymVerif.C41.rc_inv_conc",
        "SymVerif.C41.results_seq",
        "SymVerif.C41.wf0_inv",
        "SymVerif.C41.nonatomic_lost_update",
        "SymVerif.C41.nonatomic_use_after_free",
        "SymVerif.C41.statics_ok",
        "SymVerif.Conc.step_inv",
        "SymVerif.Conc.run_inv",
    ],
    partial=[
        "C41 as a whole is partial: the theorems cover the two fields written after construction (hash_ cache, "
        "refcount_) under every interleaving; that the read-only operations write nothing else rests on the static "
        "scan of mutable statics and on ThreadSanitizer exploration",
    ],
    rule="op lines 'C <threads> <seed> <shared> <ops>': <threads> (2-16, mostly 8) std::threads released together run "
         "seeded programs of <ops> operations (hash, eq/__cmp__, __str__, diff, subs, expand, add, mul, RCP copy/release, "
         "unordered_set insertion, has_symbol) over <shared> (1-7) shared expressions with cold hash caches, with seeded "
         "yields; output 'same' iff each thread's result digest equals the digest of the sequential execution of the same "
         "program, and the shared roots' use_count() equal those of an untouched build afterwards. The Lean driver "
         "executes the interleaving model on a pseudo-random schedule for the same parameters and prints its verdict "
         "(always 'same' by theorem results_seq). distinct = distinct op lines; non-trivial = every line; tags: "
         "cold-one-shared (8 threads, 1 expression), threads-8, threads-other. Thorough tier: the same lines under "
         "ThreadSanitizer (halt_on_error: any report = FAIL:crash).",
    not_covered=[
        "races in code that is not modelled (everything except hash_ and refcount_): excluded only by the source scan of "
        "mutable statics (allow-list with justifications in Gen/Statics.lean) and by the TSan runs - exploration, not proof",
        "operations outside the property's list: number theory (global prime sieve: not thread-safe), series expansion "
        "(Series::step_list static list: a genuine data race, reported), C API class-id lookup (static std::map operator[])",
        "memory-model subtleties below sequential consistency (the C++ code uses seq_cst operators on std::atomic)",
        "the deallocation is merged into the atomic decrement step in the model (justified: nobody can reach the object)",
        "the Teuchos RCP configuration",
    ],
    assumptions=[
        "operations other than hash() and RCP copy/release only read immutable fields of shared objects and create "
        "thread-private objects (the model's `read`)",
        "std::atomic<T> operator++/--/load/store are sequentially consistent single steps",
        "objects with static storage and `const` type are not written after their (C++11 thread-safe) initialisation",
    ],
    level_text="partial",
    level_note="The Lean kernel proves, for every schedule, thread count and program, that the lazily cached hash and "
               "the atomic reference count behave sequentially (hash_ in {0,H}, counter = references held, no free while "
               "held, results equal the sequential results) and that the non-atomic variant is racy. Absence of races "
               "elsewhere in the library rests on the static scan of mutable statics plus ThreadSanitizer runs, which are "
               "exploration supporting the search, not proof.",
    technique="interleaving model + inductive invariant over all schedules (Lean 4 core); source/symbol-table translator "
              "with allow-list; differential sequential/concurrent execution; ThreadSanitizer exploration",
)
