import sys
from pathlib import Path
sys.path.insert(0, str(Path(__file__).resolve().parent.parent / "tools" / "extract"))
from c12_formulas import fn as c12_formulas  # noqa: E402

_T = "SymVerif.C12."
SPEC = dict(
    id="C12",
    level="partial",
    lean_props="SymVerif.Props.C12",
    driver="C12",
    harness="c12.cpp",
    translators=[c12_formulas],
    validate_mode=True,
    theorems=[_T + n for n in [
        "visitor_table_agree", "table_agree_sound", "floatOps_idem", "realOps_idem",
        "lambda_visitor_fn_agree", "complex_shares_generic",
        "cot_spec", "sec_spec", "csc_spec", "asec_spec", "acsc_spec", "acot_spec",
        "coth_spec", "sech_spec", "csch_spec", "acsch_spec", "acoth_spec", "asech_spec",
        "sign_spec", "lt_spec", "le_spec", "eq_spec", "ne_spec",
        "pi_spec", "e_spec", "goldenRatio_spec", "powE_consistent",
        "foldVals_max", "foldVals_min", "max_def_is_fold", "max_spec",
        "evalG_add", "evalG_add_dict", "evalG_mul", "evalG_pow", "evalG_app_fn", "evalG_app_nodeVal",
        "evalPw_first", "evalPw_skip",
    ]],
    partial=["C12_full (def, not asserted): IEEE-754 rounding and libm accuracy are outside the kernel"],
    rule="random closed canonical trees (depth 1-4) over every node kind EvalRealDoubleVisitor accepts, built through the "
         "public API with operands fitted into each function's domain; distinct = distinct op lines; non-trivial = all "
         "(every op evaluates a tree); tags d<depth>-<top node kind>, complex-d<depth>, fixed (boundary cases)",
    not_covered=[
        "IEEE-754 rounding and libm accuracy (runtime behaviour; checked by the long-double oracle, not proved)",
        "eval_complex_double values at model level (only acceptance is modelled; values are checked by the harness "
        "against a complex<long double> reference)",
        "NumberWrapper / FunctionWrapper (delegate to user code), RealMPFR / ComplexMPC (not in the verified build)",
        "evalf with bits > 53 (MPFR/MPC builds)",
        "doubles outside the normal range as leaves, integers >= 2^62",
        "Catalan and EulerGamma literals: only bit-level correspondence (Mathlib has no closed forms / tight bounds)",
    ],
    assumptions=[
        "Lean's Float.sin/cos/... and the C++ std::sin/... resolve to the same libm entry points (observed bit-exact)",
        "tgamma/lgamma/erf/erfc values are supplied to the Lean driver by the harness (direct libm calls on the operand value)",
        "mpz_get_d / mpq_get_d truncate towards zero (GMP documentation); modelled exactly by ratToBits false",
        "the real iteration order of Add/Mul dictionaries is reported by the harness (ordered dump) and checked to be a "
        "permutation of the op's tree",
    ],
    level_text="partial",
    level_note="Proved: per-node formula logic over the reals (defining properties of cot sec csc asec acsc acot coth sech "
               "csch acsch acoth asech, sign, relationals, pi, E, GoldenRatio, Pow-with-base-E consistency, Max/Min folds, "
               "Piecewise selection), agreement of the single-dispatch table with the visitor definitions (decide over the "
               "translated tables), compositionality of evalG.  Not provable in the kernel: IEEE rounding and libm accuracy; "
               "these are tested (bit-exact correspondence of evalG at Float with eval_double, long-double accuracy oracle).",
    technique="Lean 4 theorems over translated per-node formula tables + certificate-mode correspondence at Float",
)
