import importlib.util
from pathlib import Path

_p = Path(__file__).resolve().parent.parent / "tools" / "extract" / "c42_capi.py"
_spec = importlib.util.spec_from_file_location("c42_capi", _p)
_mod = importlib.util.module_from_spec(_spec)
_spec.loader.exec_module(_mod)

T = "SymVerif.C42."
SPEC = dict(
    id="C42",
    level="partial",
    lean_props="SymVerif.Props.C42",
    driver="C42",
    harness="c42.cpp",
    validate_mode=True,
    translators=[_mod.fn],
    theorems=[T + n for n in [
        "no_escape_partial", "ix_faithful", "escapers_known", "wrapped_returns_code", "code_is_wrapped",
        "all_declared", "wrapped_prelude",
        "exc_enum_range", "ok_code_zero", "exc_map_total", "exc_other_runtime", "exc_class_carried",
        "exc_class_codes", "exc_class_code_unique", "callWrapped_ok", "callWrapped_threw", "callWrapped_total",
        "expr_ops", "expr_ops_complete", "core_table_partial",
    ]] + ["SymVerif.C42Containers." + n for n in [
        "vec_push_size", "vec_push_get_last", "vec_push_get_old", "vec_set_get", "vec_erase_get",
        "vec_oob_unchanged", "vec_run_length", "vint_push_get_last", "vint_push_get_old",
        "set_step_refines", "set_run_refines", "map_step_refines", "map_run_refines",
    ]],
    partial=["no_escape_partial (excludes the functions of knownEscapes: basic_dumps, basic_set_is_{proper_,}{sub,super}set, "
             "lambda/llvm *_visitor_init - each has a confirmed escaping input)",
             "core_table_partial (excludes basic_set_universalset, which assigns emptyset())"],
    rule="one C API call + the corresponding C++ API call per `capi` line (289-function table; ~150 functions exercised: "
         "41 one-argument and 11 two-argument functions on random expressions and special values, ntheory, sets, "
         "parsing of good and malformed strings, serialisation round trips with truncated input, matrices, predicates, "
         "printers, lambda visitor), arguments chosen so that ~10% of the C++ calls throw; call histories on the four "
         "container types (vec/set/map/vint lines); every Expression operator overload (expr lines). distinct = distinct "
         "op lines; non-trivial = all (each performs at least one C call and one C++ call)",
    not_covered=[
        "std::bad_alloc (allocation failure) is outside the model: `new`, std::string and container growth are on the no-throw list",
        "precondition violations (non-Number passed to number_is_*, non-Integer to ntheory_*, out-of-range indices of "
        "vecbasic_get/set/erase, setbasic_get, vectorint_get, dense_matrix_get/set_basic): undefined behaviour in a release "
        "build, documented, not executed (index out of range is executed only in the assert build, where it yields code 1)",
        "MPFR/MPC/LLVM-only functions (real_mpfr_*, complex_mpc_*, llvm_*_visitor_*): in the table and in the table "
        "theorems, not executed (library not configured with them)",
        "callee extraction is lexical (regex): implicit conversions / constructors and operators other than ==, !=, [] "
        "are not seen; the allow-list justifications are by source reading",
        "per-function result equality is established by the correspondence oracle (C result vs C++ result), not by proof",
        "infinite sets (Reals, Integers, Rationals ...) are not combined by the generator: set_union / set_intersection on "
        "them recurse without bound in sets.cpp (reported to C27)",
    ],
    assumptions=[
        "eq() on the generated container elements coincides with equality of their canonical dumps (checked by the harness on every pair used)",
        "RCPBasicKeyLess does not throw: __cmp__ dispatches on the type code before calling the same-class compare",
    ],
    level_text="proof for the table / exception-map / container / operator-table statements; result equality per function by correspondence",
    level_note="no_escape and core_table are proved minus explicit exclusion lists equal to the recorded findings",
    technique="translated table of all extern \"C\" functions + decide; interpreter of the translated CWRAPPER_END; "
              "Finset / finite-map refinement; validate-mode driver",
    search_seeds=1,
)
