SPEC = dict(
    id="C11",
    level="proof",
    lean_props="SymVerif.Props.C11",
    driver="C11",
    harness="c11.cpp",
    validate_mode=True,
    theorems=[
        "SymVerif.Expr.eqb_eq",
        "SymVerif.Expr.eqb_refl",
        "SymVerif.Subs.lookup_mem",
        "SymVerif.Subs.subsE_inert",
        "SymVerif.Subs.subsC_spec",
        "SymVerif.C11.subsE_value",
        "SymVerif.C11.subs_value_partial",
        "SymVerif.C11.xreplace_value_partial",
        "SymVerif.C11.subs_absent",
        "SymVerif.C11.subs_id",
        "SymVerif.C11.subs_cache",
        "SymVerif.C11.judgeNF_ok",
        "SymVerif.C11.judge_ok",
        "SymVerif.C11.certificate_sound",
        "SymVerif.C11.ex_judge_ok",
        "SymVerif.C10.equiv_real",
        "SymVerif.C11.library_result_has_value",
        "SymVerif.NF.equiv_sound",
    ],
    rule="one call mode(e, sigma, cache) per op line, mode in subs/xreplace/msubs/ssubs; e = random real expression "
         "(families rational, elementary, functions, sympow, fsym, shared = repeated subterm); sigma by tag suffix: "
         "/num /sym /expr (one symbol key with a number, symbol, expression image), /multi (2-3 keys at once), /swap "
         "({x:y, y:x}), /absent (key not in e), /identity; exprkey/subterm (key = a sub-expression of e, e.g. a whole "
         "Add term or a Mul factor), exprkey/pow (key x**b against x**(a*b): SubsVisitor's exponent path), "
         "exprkey/identity; numkey/alone, numkey/with-symbols (Integer/Rational keys that occur in e as Add constant, "
         "Add-term coefficient, Mul coefficient, exponent or function argument, alone or together with symbol keys); "
         "binder (e contains Derivative/Subs nodes, subs only). distinct = distinct op lines; "
         "non-trivial = all. impl_stats: value_checked_exact/numeric/not_checked, *_points_*, absent_key_cases, "
         "identity_cases, modes_agree_cases (subs = xreplace = msubs = ssubs on derivative-free inputs), "
         "number_key_cases (value under the number-key reading of docs/C11.md + four entry points eq + cache), "
         "expression_key_cases (cache, identity, certificate), expression_key_fresh_image_cases (value oracle for "
         "expression keys), binder_*_not_eq_value_checked.",
    not_covered=[
        "Lean certificate: inputs containing Derivative/Subs nodes are SKIP:unsupported-* (value/cache oracle only); "
        "results in which the library re-canonicalised the argument of a function or a non-integer power after the "
        "substitution are SKIP:atoms-differ (~20% of the generated cases); complex-number keys (I) are SKIP:complex-key",
        "normal forms above the size guard (`Diff.affordable`) are SKIP:too-large (~1% of thorough cases)",
        "value preservation has no meaning for non-symbol keys in general; when every image is a fresh symbol the "
        "oracle checks 'result at w := value(key) has the value of e'; for those only cache independence, the identity map "
        "and agreement with the model's matching semantics (certificate) are checked",
        "subs_value_partial is over the reals with Mathlib's total functions (x/0 = 0, rpow for non-integer powers); "
        "complex points are covered by the numeric oracle only",
        "xreplace/msubs/ssubs on expressions *with* derivatives (excluded by the property text)",
        "Piecewise, sets, booleans, matrices as substitution targets",
    ],
    assumptions=[
        "harness/sexp.h dumps the stored fields faithfully and vsexp::parse rebuilds an `eq` object (checked per generated case)",
        "the keys of a map_basic_basic are pairwise different (KeysDistinct); the harness rejects op lines with duplicate keys",
        "atoms of the normal form are interpreted by an arbitrary assignment of their canonical dump strings "
        "(certificate_sound holds for every such assignment)",
    ],
    level_text="(1) Lean proofs about the model subsE (XReplaceVisitor/SubsVisitor on trees, unsimplified): the "
               "substitution lemma over the reals for symbol keys with arbitrary images (functions interpreted), "
               "literal identity for absent keys and identity maps, and literal equality of the traversal with the "
               "visited table seeded with sigma and the traversal without it for every map with pairwise different "
               "keys (including sub-expression keys); (2) certificate checking of every generated library result "
               "against subsE by the proven-sound normaliser NF; (3) an independent oracle on the real objects: "
               "value of e at rho o sigma vs value of the result at rho (exact rationals / long double; Derivative "
               "nodes by nested dual numbers, Subs nodes by environment extension), absent/identity `eq`, cached vs "
               "uncached `eq`, the four entry points `eq` on derivative-free inputs.",
    level_note="proof for symbol-keyed maps on derivative-free trees of the model + per-input certificates; "
               "expressions with Derivative/Subs nodes and expression keys: oracle (and certificate where modelled) only",
    technique="textbook substitution on trees + substitution lemma by induction (Mathlib reals); table invariant "
              "(entries are own images, table extends sigma); reflexive normaliser as certificate checker; "
              "environment-passing evaluators in the harness",
    partial=[
        "subs_value_partial / xreplace_value_partial: real points, trees on which evalR is compositional (no "
        "Derivative/Subs); C11_full (def) is not proved and is false for the code as it is "
        "(Derivative(f(x,z),x).subs({x:y, z:y})), see docs/C11.md",
    ],
    search_seeds=2,
)
