SPEC = dict(
    id="C31",
    level="partial",
    lean_props="SymVerif.Props.C31",
    driver="C31",
    harness="c31.cpp",
    theorems=[
        "SymVerif.C31.mul_spec",
        "SymVerif.C31.mul_trunc_high",
        "SymVerif.C31.pow_spec",
        "SymVerif.C31.diff_spec",
        "SymVerif.C31.integrate_spec",
        "SymVerif.C31.stepList_schedule",
        "SymVerif.C31.series_invert_spec",
        "SymVerif.C31.series_log_spec",
        "SymVerif.C31.series_exp_spec",
        "SymVerif.C31.isExpOf_unique",
        "SymVerif.C31.exp_taylor",
        "SymVerif.C31.sin_taylor",
        "SymVerif.C31.cos_taylor",
        "SymVerif.C31.series_atan_spec",
        "SymVerif.C31.series_atanh_spec",
        "SymVerif.C31.series_sinh_spec",
        "SymVerif.C31.series_cosh_spec",
        "SymVerif.C31.series_tan_spec",
        "SymVerif.C31.series_tanh_spec",
        "SymVerif.C31.series_lambertw_spec",
        "SymVerif.C31.series_nthroot_spec",
        "SymVerif.C31.series_asin_spec",
        "SymVerif.C31.series_asinh_spec",
        "SymVerif.C31.fat_inj",
        "SymVerif.C31.lambert_inj",
        "SymVerif.C31.pow_inj_mod",
        "SymVerif.C31.powDispatch_sound_all",
        "SymVerif.C31.apply_sound_all",
        "SymVerif.C31.series_sound_partial",
        "SymVerif.C31.apply_sound",
        "SymVerif.C31.series_total_partial",
        "SymVerif.C31.sampleRoot_den",
    ],
    partial=[
        "SymVerif.C31.series_sound_partial: soundness of the model of series(e,x,prec) against every formal Taylor "
        "series D of e (relation Den: sums, products, integer and rational powers, exp, f^g, log, sin, cos, sec, "
        "tan, atan, asin, sinh, cosh, tanh, asinh, atanh, lambertw, any nesting). Partial because (1) the model "
        "covers rational coefficients and non-negative exponents only: symbolic constants (sin(1+x), exp(c+..), "
        "irrational roots) and Laurent intermediates (sin(x)/x, where the real code loses precision: known finding "
        "D-C31-precloss) are outside; (2) completeness (the model answers whenever a denotation exists) is stated "
        "as def C31_full, not proved; (3) existence of the denotation is proved constructively only on the "
        "fragment `covered` (series_total_partial); tan/tanh/lambertw/asin/asinh/rational powers are characterised "
        "by their defining equations, whose solutions are proved unique (fat_inj, lambert_inj, pow_inj_mod)",
    ],
    rule="series(f, x, prec) on expressions built through the public API and sent as canonical S-expression dumps; "
         "distinct = distinct (expression, order) lines; non-trivial = every series line (the `cov` lines, which only "
         "compare the fragment predicate, are tagged trivial). Tags: fixed (every supported function of x, x+x^2, 2x at "
         "orders 1-6, 9 and the maximum), depth0..depth3 (random compositions of that nesting depth over sin tan atan "
         "asin sinh tanh asinh atanh lambertw exp log cos cosh sec, sums, products, quotients by series with non-zero "
         "constant term, integer powers -3..4, rational powers of 1+..., of perfect powers c^n+..., general powers "
         "f^g; orders 1-12, thorough 1-20), nonrat (symbolic constants: f(c+...), acos, sqrt(2+...), 2^...; judged "
         "numerically), removable (quotients whose numerator and denominator vanish at 0), rootval (square roots of "
         "x^(4m)*(1+...)).",
    not_covered=[
        "URatPSeriesFlint / UPSeriesPiranha back-ends (FLINT and Piranha are absent in this build; series() always "
        "takes the UnivariateSeries path)",
        "coefficients that are not rational numbers (free symbols, exp(c), log(c), sin(c), pi, irrational roots): the "
        "Lean model answers SKIP:notRational; such cases are judged only by the numeric diff/subs oracle, at orders <= 9",
        "Laurent / Puiseux results (negative exponents, cot, csc, 1/x): model answers SKIP:laurent; the property is "
        "about functions analytic at 0",
        "the generic Function visitor (repeated differentiation for functions without a dedicated recurrence: erf, "
        "gamma, acosh, asech, ...) and series_reverse / series_invfunc (Piranha only)",
        "prec = 0 (unsigned prec-1 wraps around in series_atan/log/asin/...)",
        "terms of degree >= prec in the returned polynomial: series_asin, series_asinh and scalar products multiply "
        "without truncation, so as_dict()/as_basic() can contain terms beyond the requested order that are not "
        "Taylor coefficients; they are mirrored by the model and compared, but the property is only about degrees < prec",
        "the identification of the formal power-series semantics `Den` (composition in Q[[X]]) with the Taylor "
        "expansion of the analytic function is the classical theorem and is not formalised",
        "Expression arithmetic on rationals (add/mul/div of Integer/Rational) is taken as exact field arithmetic "
        "(C05/C07); it is exercised by the correspondence on every case",
    ],
    assumptions=[
        "std::map<int, Expression> iteration is in increasing key order and Expression ==/!= on rationals is exact "
        "equality (the model uses dense coefficient lists)",
        "the hash order of the Mul/Add dictionaries does not influence the result when all exponents are >= 0 "
        "(truncation modulo x^prec is a ring homomorphism; proved: mul_spec)",
    ],
    level_text="Machine-checked (Lean 4, Mathlib PowerSeries) for the recurrences of series.h modelled statement by "
               "statement over exact rationals: truncated product and power, the step_list precision schedule, the "
               "Newton inversion series_invert (p*s = 1 mod x^prec), series_log (= integral of s'/s), series_exp "
               "(Newton iteration on log; equals Mathlib's exp composed with s mod x^prec), _series_sin/_series_cos "
               "(equal Mathlib's sin/cos composed with s), series_atan/atanh, series_sinh/cosh/sec, including all fast "
               "paths; the Newton iterations on inverse functions series_tan/tanh (atan g = s), series_lambertw "
               "(g e^g = s), series_nthroot (g^n = s) and series_asin/asinh; and the SeriesVisitor composition: for "
               "every expression, every order and every formal Taylor series D of the expression, whenever the model "
               "of series(e,x,prec) answers, its coefficients below prec are those of D (solutions of the defining "
               "equations proved unique); on a decidable fragment the existence of D is proved as well.",
    level_note="partial: every recurrence of series.h that the model covers is proved (32 theorems), and the visitor "
               "composition is proved sound against every formal Taylor series of the expression "
               "(series_sound_partial). Partial because of the model's fragment (rational coefficients, no poles) and "
               "because completeness (C31_full) is not proved. Tie: exact comparison of the "
               "complete coefficient dictionary (model vs library) plus two model-independent oracles (library "
               "diff+subs Taylor coefficients; GMP power-series evaluator with textbook recurrences). The check found three "
               "genuine defects: series_acos with non-zero constant term (fixed ff5d4f6), series_nthroot sign of the "
               "leading-degree shift (fixed ee8c9c2), and loss of precision where a pole cancels, e.g. x/(exp(x)-1) "
               "(known finding D-C31-precloss).",
    technique="Lean 4 executable model over core Rat (dense coefficient lists, Except for every exception / "
              "out-of-fragment case); proofs in PowerSeries Q modulo X^n: congruence calculus, generic Newton-fold "
              "principle over the step_list schedule, ODE characterisation + uniqueness for exp/log, power-sum "
              "invariants for sin/cos, mutual structural induction over the expression tree for the visitor. "
              "Correspondence harness with exact rational output; two independent oracles.",
    run_timeout=2400,
)
