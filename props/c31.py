SPEC = dict(
    id="C31",
    level="partial",
    lean_props="SymVerif.Props.C31",
    driver="C31",
    harness="c31.cpp",
    theorems=[],
    rule="stub",
    not_covered=[],
    assumptions=[],
)
