SPEC = dict(
    id="C06",
    level="proof",
    lean_props="SymVerif.Props.C06",
    driver="C06",
    harness="c06.cpp",
    theorems=[
        "SymVerif.C06.add_comm_all",
        "SymVerif.C06.mul_comm_all",
        "SymVerif.C06.nan_absorbs",
        "SymVerif.C06.infty_add_infty",
        "SymVerif.C06.oo_add_neg_oo",
        "SymVerif.C06.zero_mul_infty",
        "SymVerif.C06.exact_zero_mul_infty",
        "SymVerif.C06.pos_mul_infty",
        "SymVerif.C06.neg_mul_infty",
        "SymVerif.C06.infty_div_real",
        "SymVerif.C06.exact_div_zero",
        "SymVerif.C06.float_stays_float_partial",
        "SymVerif.C06.float_times_exact_zero",
        "SymVerif.C06.C06_float_full_false",
        "SymVerif.C06.D4_orig_add_not_comm",
        "SymVerif.C06.D4_orig_div_nan",
        "SymVerif.C06.D4_orig_pow_nan",
        "SymVerif.C06.orig_infty_div_complex",
        "SymVerif.C06.toyComm",
    ],
    rule="one binary operation (add sub mul div pow) per line on two numbers of any kind; the complete table of "
         "ordered pairs of 45 representative values (10 integers incl. multi-limb, 6 rationals, 6 Gaussian rationals, "
         "13 doubles incl. +-0, +-inf, nan, huge, tiny, 6 complex doubles, oo, -oo, zoo, nan) x 5 operations is "
         "generated in BOTH tiers (tags table-KxK), plus random values of every kind (tags random-KxK; quick 6000, "
         "thorough 60000). Every line is non-trivial: commutativity is re-evaluated with swapped fresh operands and "
         "each applicable oo/nan rule is checked on the result.",
    exhaustive=dict(quick=True, thorough=True),
    not_covered=["cells that call libm/libgcc routines which are not single IEEE operations: std::pow on complex "
                 "arguments, complex division (__divdc3: x / ComplexDouble, ComplexDouble / Complex), the NaN-recovery "
                 "path of __muldc3 - the model prints SKIP there (about 10 % of the lines); the oracle still checks the "
                 "property on them",
                 "commutativity for doubles is proved from the hypotheses FloatComm (IEEE + and * commute) because "
                 "Lean's Float is opaque to the kernel; NaN payloads/sign are canonicalised in the dump",
                 "RealMPFR / ComplexMPC (not built)",
                 "Add/Mul level (add.cpp, mul.cpp) coefficient handling: C07"],
    assumptions=["IEEE binary64 + and * are commutative (FloatComm)",
                 "Lean Float + - * / and libm pow are the same machine operations as C++ double (same host, same libm)",
                 "mpz_get_d / mpq_get_d truncate towards zero (GMP documentation); re-implemented exactly in floatOfInt/floatOfQ"],
    level_text="Machine-checked proof (Lean 4) over an executable model of the complete 7x7 double-dispatch table "
               "(Integer, Rational, Complex, RealDouble, ComplexDouble, Infty, NaN) for add/sub/mul/div/pow: a+b = b+a "
               "and a*b = b*a for EVERY ordered pair of numbers of every kind (floats: any type F with commutative "
               "+ and *), nan absorbs all five operations on both sides, oo + -oo = nan, zero * infinity = nan, a "
               "positive/negative real factor keeps/flips the direction, infinity / real, exact / exact zero = zoo "
               "(0/0 = nan), and a float operand keeps the result a float - except RealDouble * exact 0, which the "
               "library deliberately returns as the exact 0 (proved as the witness float_times_exact_zero). The model "
               "is tied to the C++ by the complete pair table (both tiers) compared bit for bit.",
    level_note="Proved for the code as patched for D4 (Infty::add/div/pow ignored a NaN operand) and Infty::div by a "
               "complex number (returned the flipped infinity). float_stays_float is claimed partial: the full "
               "statement C06_float_full is refuted (C06_float_full_false) by mul(RealDouble, Integer 0) = Integer 0.",
    technique="case split over the 49 constructor pairs; each cell closes by unfolding the class methods and Int/Q/"
              "FloatComm commutativity; the original (unpatched) cells are kept as ...Orig definitions and the defects "
              "are proved about them",
    partial=["float_stays_float_partial: excludes mul(RealDouble d, Integer 0) and mul(Integer 0, RealDouble d), "
             "which return the exact Integer 0 (RealDouble::mulreal(const Integer&))"],
)
