import sys
from pathlib import Path
sys.path.insert(0, str(Path(__file__).resolve().parent.parent / "tools" / "extract"))
import c08_tables  # noqa: E402

_T = "SymVerif.C08."
_F = "SymVerif.Funcs."
SPEC = dict(
    id="C08",
    level="partial",
    lean_props="SymVerif.Props.C08",
    driver="C08",
    harness="c08.cpp",
    translators=[c08_tables.fn],
    theorems=[_T + n for n in [
        # 1 tables (re-proved against the regenerated Gen/TrigTables.lean on every run)
        "sinTable_value", "sinTab_sound",
        "inverseCst_value_partial", "inverseTct_value_partial",
        "inverseCst_row4_wrong", "inverseCst_row5_wrong", "inverseCst_row6_wrong", "inverseCst_row7_wrong",
        # 2 shift / parity logic, any valuation, any dictionary order, any functions obeying TrigLaws
        "get_pi_shift_sound", "handle_minus_sound", "trig_simplify_sound", "trig_ctor_sound",
        "trig_ctor_value_complex", "trig_ctor_value_real",
        "sin_ctor_value", "cos_ctor_value", "tan_ctor_value", "cot_ctor_value", "csc_ctor_value", "sec_ctor_value",
        "sin_ctor_table_value", "semE_compositional",
        # 3 exact numbers
        "floor_rat", "ceiling_rat", "truncate_rat", "sign_int", "abs_int",
        "gamma_int", "gamma_half_pos", "gamma_half_neg",
        # 4 the full table statement is false for the code as it is
        "C08_full_false",
    ]] + [_F + n for n in [
        "Recipe.evalS_sound", "Surd.toReal_mul", "Surd.inv?_sound",
        "getPiShift_sound", "addPi_sound", "handleMinus_sound", "trigSimplify_sound", "trigCtor_sound",
        "shiftM_spec", "shiftM_lt_two", "trigLaws_of_sinCos", "realLaws", "complexLaws",
        "sin_pi_div_twelve", "sin_five_pi_div_twelve", "sin_pi_div_ten", "tan_pi_div_twelve",
    ]],
    rule="one op = one constructor call on operands built through the public API and shipped as canonical dumps. "
         "Families: trig (sin cos tan cot csc sec of q*pi + r; q with denominators 1 2 3 4 5 6 10 12 and random <= 30, "
         "|q| up to 200; r in {0, number, atom, c*atom, sum of up to 3 terms (+ constant), -(sum) as Mul(-1,{Add}), "
         "-(sum incl. pi)}; atoms: x y z, x*y, x**2, f(x), log(x)); every function at every multiple of pi/12 in three turns, "
         "alone and with a symbol); par (13 functions rewritten through handle_minus, same r shapes, optionally with a pi "
         "term); inv (6 inverse functions at every table key, its reciprocal, 0 +-1, random non-keys) and atan2 (key "
         "quotients with all sign combinations, zeros, symbols); num (floor ceiling truncate sign abs conjugate at random "
         "rationals / integers up to 1e21 / Gaussian rationals / the five constants; gamma at all integers -3..25 and "
         "half-integers -31/2..31/2; primepi, primorial, levi_civita (permutations, repeated indices, arbitrary), "
         "kronecker_delta, max/min of rationals); tab (every row of the three tables); ora = oracle only (zeta, "
         "dirichlet_eta, polygamma, lower/uppergamma, beta, lambertw, loggamma, log/exp, floor-family of sums and nested, "
         "sign/abs of products, conjugate of products/powers/functions, max/min with symbols and floats, "
         "kronecker_delta of sums, floating real and complex arguments of 34 functions, trig of inverse trig). "
         "distinct = distinct op lines; non-trivial = all (no 'trivial' tag). impl_stats: oracle_rewritten_results vs "
         "oracle_unevaluated_results (result literally f(args): nothing to check), oracle_points_checked_real/_complex/"
         "_infinite, oracle_points_discarded_illconditioned/_nan/_huge, oracle_points_unsupported, exact_checks.",
    not_covered=[
        "the Lean model covers the *linear-form fragment*: arguments c + sum q_i*k_i with rational c, q_i; complex or "
        "floating coefficients, an Add key nested in an Add, trig(asin(x))-style cancellations answer SKIP:fragment "
        "(numeric oracle only)",
        "could_extract_minus on an Add looks at the first entry of a hash-ordered map: the order is an input of the "
        "model (computed by the harness with the library's own comparator); the theorems hold for every order",
        "div(one, arg) in asec/acsc and div(num, den) in atan2 are inputs of the model (computed by the library), "
        "the lookup and sign logic after them is modelled",
        "inverse_lookup is modelled as comparison of canonical dumps with pinned key dumps "
        "(tools/extract/c08_pinned.json, re-checked against the library by the `tab` ops)",
        "no Lean theorem (numeric oracle in harness/c08.cpp only): hyperbolic/erf/abs parity rewrites beyond "
        "handle_minus_sound, 6 of the 14 inverse_tct rows (pi/8, 3pi/8, 2pi/5 and negatives), zeta, dirichlet_eta, "
        "erf, erfc, lambertw, beta, polygamma, lowergamma, uppergamma, loggamma (Mathlib lacks most of them), atan2 sign "
        "logic, max/min, kronecker_delta, levi_civita, primepi, primorial, conjugate, exp/log, floating arguments",
        "the numeric oracle is double precision (rel. 1e-9): it cannot see errors below that, nor values on branch "
        "cuts / within 1e-7 of a singularity or a jump (discarded by a perturbation test, counted in impl_stats)",
        "zeta(s, a) with a <= 0 (the constructor does not terminate for a = 0: harmonic(-1, s)); arguments beyond "
        "the generator's ranges (|q| > 200, primepi beyond 3000, gamma beyond 31/2)",
    ],
    assumptions=[
        "add/sub/mul/div/pow/sqrt used inside the table recipes are value-preserving (C07): the table theorems are "
        "about the real numbers the recipe *expressions* denote",
        "harness/sexp.h dumps stored fields faithfully; vsexp::parse rebuilds the operand the generator dumped",
        "a valuation of the atoms is compositional on Add atoms (Compositional; satisfiable: semE_compositional)",
    ],
    level_text="Lean 4 proof that the argument reduction of the six trigonometric constructors (get_pi_shift, "
               "trig_simplify, handle_minus, the table/shift/parity case analysis and the recursion between a function "
               "and its co-function) preserves the value for every linear argument, every valuation of its atoms in any "
               "field of characteristic 0 with functions obeying the period/parity/quarter-turn laws (instantiated at "
               "Complex.sin/cos/tan and Real), for every dictionary iteration order; that all 24 entries of sin_table() "
               "as regenerated from the sources equal sin(pi*n/12); that 8 of 12 rows of inverse_cst and 8 of 14 rows of "
               "inverse_tct are correct and 4 rows of inverse_cst are wrong; exact floor/ceiling/truncate/sign/abs and "
               "gamma at integers and half-integers.  The model is tied to the C++ by differential execution "
               "(5000 / 27000 constructor calls per run) and every call is also judged by an independent numeric oracle.",
    level_note="partial: the remaining constructors of the property (hyperbolic parity rewrites, inverse lookups beyond the "
               "proved rows, atan2, gamma relatives, zeta, erf, lambertw, beta, polygamma, max/min, kronecker_delta, "
               "levi_civita, primepi, primorial, conjugate, floating arguments) are covered by the correspondence (where "
               "modelled) and by the numeric/exact oracle only.  Model is the code as patched by docs/patches/C08_A, F, G, H "
               "(gamma_multiple_2 overflow, floor of exact Complex, sign of Complex, atan2(0, x)).",
    technique="linear-form view of the stored Add/Mul trees; TrigLaws structure (period, parity, quarter turn, half turn) "
              "derived from 8 laws of (sin, cos) and instantiated with Mathlib at R and C; induction on fuel for the "
              "sin<->cos / tan<->cot / csc<->sec recursion; exact field Q(sqrt2, sqrt3) with a proven-sound evaluator for "
              "the table recipes; special angles from Mathlib (pi/3, pi/4, pi/5, pi/6) + addition formulas for pi/12, "
              "5pi/12, pi/10; Real.Gamma recurrences",
    partial=["inverseCst_value_partial", "inverseTct_value_partial"],
)
