import sys
from pathlib import Path
sys.path.insert(0, str(Path(__file__).resolve().parent.parent / "tools" / "extract"))
from c12_formulas import fn as c12_formulas  # noqa: E402
from c45_mpfr import fn as c45_mpfr  # noqa: E402

_T = "SymVerif.C45."
SPEC = dict(
    id="C45",
    level="partial",
    lean_props="SymVerif.Props.C45",
    driver="C45",
    harness="c45.cpp",
    translators=[c12_formulas, c45_mpfr],
    validate_mode=True,
    configs={"quick": ["mpfr"], "thorough": ["mpfr"]},
    theorems=[_T + n for n in [
        "mpfr_table_agree", "mpc_table_agree", "mpfr_only_kinds", "double_only_kinds",
        "mpfr_bodies_well_formed", "mpc_bodies_well_formed", "mpfrNodeVal_eq",
        "mpfr_cot_spec", "mpfr_sec_spec", "mpfr_csc_spec", "mpfr_asec_spec", "mpfr_acsc_spec", "mpfr_acot_spec",
        "mpfr_coth_spec", "mpfr_sech_spec", "mpfr_csch_spec", "mpfr_acsch_spec", "mpfr_acoth_spec", "mpfr_asech_spec",
        "mpfr_lt_spec", "mpfr_le_spec", "mpfr_eq_spec", "mpfr_ne_spec", "mpfr_atan2_spec",
        "mpfr_pi_spec", "mpfr_e_spec", "mpfr_goldenRatio_exact",
        "fold_first_eq_foldArgs", "real_add_unit", "real_mul_unit",
        "dispatch_precision_table", "dispatch_precision", "dispatch_total", "dispatch_operand_order",
        "rsub_alternative_sound", "rdiv_alternative_sound", "dispatch_guard_on_base",
        "double_rounding_witnesses", "dispatch_single_rounding_partial",
        "mpc_branch_operand_order_partial", "mpc_branch_swapped", "mpc_branch_swapped_is_reverse",
        "outcome_real_prec", "evalf_uses_requested_precision",
    ]],
    partial=["C45_full (def, not asserted): correct rounding is MPFR's / MPC's contract, outside the kernel",
             "dispatch_single_rounding_partial: excludes the seven methods of double_rounding_witnesses "
             "(Integer/Rational divided by a RealMPFR; powers with a Rational / Integer / double operand)",
             "mpc_branch_operand_order_partial: excludes the ten methods of mpc_branch_swapped (source level only)"],
    rule="(a) `ev`: random closed canonical trees (depth 1-4) over every node kind eval_double accepts (so also the kinds "
         "eval_mpfr rejects: Piecewise, BooleanAtom), operands fitted into each function's domain, at precision "
         "64/113/200/500; (b) `ar`: RealMPFR(p) op other for the 8 operations x 6 operand kinds (Integer incl. 0 and "
         ">113-bit values, Rational, RealDouble, RealMPFR of precision q, Complex, ComplexDouble), both signs; distinct = "
         "distinct op lines; non-trivial = all; tags ev-p<prec>-d<depth>-<top kind>, ar-<op>-<kind>[-<signs>], fixed-*",
    not_covered=[
        "correct rounding inside MPFR/MPC (Ziv loops, mpfr_add_q ...): the library's contract, tested not proved",
        "eval_mpc, ComplexMPC arithmetic and every `#ifdef HAVE_SYMENGINE_MPC` branch at run time: MPC (mpc.h) is not "
        "installed, only the translated-formula theorems apply (mpc_table_agree, mpc_branch_*)",
        "EvaluateMPFR (sin(RealMPFR) ... in real_mpfr.cpp) and RealMPFR::__eq__/compare/hash",
        "UpperGamma / LowerGamma / Beta / NumberWrapper / FunctionWrapper (no formula in the model; not generated)",
        "evalf with EvalfDomain::Symbolic (EvalVisitor) and precisions <= 53 (that is C12)",
        "precisions below 53 bits (mpfr_set_d then rounds) and RNDZ/RNDU/RNDD (the public entry points pass MPFR_RNDN)",
    ],
    assumptions=[
        "the documented meaning of the MPFR/MPC entry points (Mpfr.callSem: mpfr_cot = 1/tan, mpfr_ui_div(n,x) = n/x, "
        "mpfr_atan2(y,x), mpfr_pow(b,e), mpfr_lngamma = log Gamma, mpfr_*_p comparisons ...)",
        "`ev` correspondence compares the model at Float with the 53-bit rounding of the MPFR result within a "
        "condition-scaled tolerance computed by the harness' long-double reference evaluator (>= 4 ulp)",
        "as C12 for the Float instantiation (libm entry points; tgamma/lgamma/erf/erfc values supplied by the harness)",
    ],
    level_text="partial",
    level_note="Proved (kernel, re-checked against the tables regenerated from the sources on every run): every eval_mpfr / "
               "eval_mpc node kind denotes the same formula as eval_double's (so the defining properties proved in C12 "
               "carry over: asec, acsc, acot, ..., relationals, atan2 operand order, pi, e, GoldenRatio = (1+sqrt5)/2 "
               "exactly), the in-place folds equal the accumulator loops, and for RealMPFR arithmetic: result precision "
               "(receiver's, max for two RealMPFR), operand order of every real branch, complex-branch guard on the base "
               "of the power, which methods are a single rounding.  NOT provable here: MPFR's/MPC's correct rounding and "
               "Ziv loops (outside the kernel; exercised by the p vs 2p+64 and the correctly-rounded-reference oracles). "
               "The MPC half cannot even be built (mpc.h missing): source-level theorems only, no correspondence run.",
    technique="Lean 4 theorems (decide) over call sequences translated from eval_mpfr.cpp / eval_mpc.cpp / real_mpfr.cpp, "
              "symbolic execution into the M-Eval formula language, reuse of the C12 real-number specifications; "
              "certificate-mode correspondence in the mpfr build configuration",
)
