SPEC = dict(
    id="C37",
    level="proof",
    lean_props="SymVerif.Props.C37",
    driver="C37",
    harness="c37.cpp",
    validate_mode=True,
    theorems=[
        # semantics and substitution
        "SymVerif.CSE.evalS_substSym",
        "SymVerif.CSE.evalS_backSubst",
        # soundness of the tree comparison
        "SymVerif.Expr.eqb_eq",
        "SymVerif.CSE.foldPow_sound",
        "SymVerif.CSE.atomsOf_defined",
        "SymVerif.CSE.absE_sound",
        "SymVerif.CSE.idxOK_of_table",
        "SymVerif.CSE.atomEqWith_spec",
        "SymVerif.CSE.treeEquivWith_sound",
        "SymVerif.CSE.treeEquivF_sound",
        "SymVerif.CSE.treeEquiv_sound",
        # headline
        "SymVerif.C37.cse_certificate_sound",
        "SymVerif.C37.cse_fresh",
        "SymVerif.C37.cse_ordered",
        "SymVerif.C37.evalS_envAfter_fresh",
        "SymVerif.C37.cse_faithful_same_env",
        "SymVerif.C37.judge_ok",
        "SymVerif.C37.cse_driver_ok_sound",
        # non-vacuity
        "SymVerif.C37.MC_lawful",
        "SymVerif.C37.ex_check",
        "SymVerif.C37.ex_check_rejects",
        "SymVerif.C37.ex_check_rejects_not_fresh",
    ],
    rule="one call cse(exprs) on a list of 1-9 random expressions built through the public API so that they share "
         "subtrees, sub-sums and sub-products (pool of shared subexpressions); distinct = distinct op lines; all "
         "non-trivial. Tags: tree = shared subtrees (sums, products, integer/rational/symbolic powers, negative powers, "
         "sin cos log exp atan2 f g); addargs / mulargs = Add / Mul argument lists sharing >= 2 arguments "
         "(match_common_args, FuncArgTracker); mixed = both; xnames = inputs that already use x0..x3 (the numbering "
         "must skip them); userfn = user FunctionSymbols named add / mul / pow; binders = the names x0 x1 x2 occur only inside Derivative / Subs nodes (variable, body, point) and function arguments, next to repeated subexpressions; markerfn = 2-3 user FunctionSymbols named like the per-call cse markers (_cse_add, _cse__add, _cse___add, _cse_x, _cse_ ...) over shared sub-sums / sub-products; fixed = boundary cases. "
         "impl_stats: cse_calls, replacements_total, backsubst_eq_without_expand / _only_after_expand / "
         "_equal_by_value_only (how the oracle decided), numeric_points_judged / _discarded, "
         "subs_backsubst_not_eq_counted_only.",
    not_covered=[
        "floats, infinities, NaN, Booleans, sets, Piecewise, Derivative / Subs binders inside the inputs (generator excludes them; "
        "the checker treats binders as ordinary function applications)",
        "compound subexpressions that are a number in disguise (2-(2+x)+x: cse ends with a replacement x3 := 0, which the "
        "certificate format excludes) are not generated",
        "inputs containing (B**-n)**e with non-integer e (any negative inner exponent): re-building from a replaced B**n applies pow()'s rewrite "
        "(x**-1)**e -> x**(-e) (known finding C07-invpow-negative-real); excluded from generation",
        "integer exponents beyond +-4 and inputs whose expanded normal form exceeds ~400 monomials (checker cost)",
        "certificates in which a rational power of a replacement symbol occurs and whose faithfulness check fails are "
        "answered SKIP:rational-power-of-a-replacement-symbol-merged (x0*x0**(-1/2) -> x0**(1/2) needs the radical "
        "identity B*B**(-1/2) = B**(1/2)); about 1 case in 2500, judged by the oracle only",
        "inputs that are not canonical although built through the public API (an Add holding an Add with coefficient 1 "
        "after coefficients cancelled: C03 matter) are not generated; cse() changes the value of such an input",
        "completeness of the checker (a faithful answer could be rejected) is tested, not proved; soundness is proved",
        "the model of tree_cse / opt_cse itself (certificate mode: the answer of the real code is checked, its algorithm is not mirrored)",
        "freshness only w.r.t. symbols occurring in the expressions: a caller-owned symbol named x0 that does not occur "
        "in the expressions can collide (D20, bit LambdaRealDoubleVisitor; recorded under C13)",
    ],
    assumptions=[
        "harness/sexp.h dumps the stored fields of inputs, replacements and reduced expressions faithfully",
        "function applications are interpreted functionally (value depends on the argument values only); "
        "the interpretation satisfies Lawful: I*I=-1, b**(k+e)=b**k*b**e and (b**e)**k=b**(k*e) for integer k and b != 0, "
        "oddness / evenness of Sin Tan Cot Csc Sinh Tanh Coth Csch ASinh ATanh Erf Sign / Cos Sec Cosh Sech Abs "
        "(instantiated over C with Complex.cpow, Complex.sin, Complex.cos: MC_lawful)",
        "a power with a non-literal exponent and base 0 is undefined",
    ],
    level_text="Certificate checking with a proven-sound checker: the library's replacements and reduced expressions "
               "are accepted only if the replacement symbols are fresh and ordered and the syntactic back-substitution "
               "(last to first, also inside function arguments) is equal to the inputs up to the rational-function "
               "normaliser at every nesting level; Lean proves that acceptance implies: evaluating the replacements in "
               "order and then the reduced expressions gives the values of the inputs, in every field of characteristic 0 "
               "under every lawful functional interpretation, wherever defined.",
    level_note="proof per generated input (certificate), not a proof about cse.cpp; independent oracle: back-substitution "
               "with the real xreplace + eq/expand + own numeric evaluator, freshness and order on the real objects",
    technique="validate_mode certificates; reflexive normaliser NF reused through atom abstraction with a proven "
              "table-of-atoms argument; substitution lemma for a compositional semantics; decide +kernel non-vacuity",
    partial=[],
    search_seeds=2,
)
