import sys
from pathlib import Path
sys.path.insert(0, str(Path(__file__).resolve().parent.parent / "tools" / "extract"))
from c12_formulas import fn as c12_formulas  # noqa: E402

_T = "SymVerif.C13."
SPEC = dict(
    id="C13",
    level="partial",
    lean_props="SymVerif.Props.C13",
    driver="C13",
    harness="c13.cpp",
    translators=[c12_formulas],
    validate_mode=True,
    theorems=[_T + n for n in [
        "init_clears_map", "symbol_cse_first",
        "lambda_plain_correct", "lambda_cse_correct", "lambda_correct", "lambda_correct_gen", "cse_on_off_agree",
        "reinit_fresh_status", "reinit_fresh_values", "cse_slot_order",
    ]] + ["SymVerif.LambdaD." + n for n in [
        "pushResults_ok", "pushRepl_ok", "Inv_step", "envOf_eq_extEnv", "fillSlots_eq", "slotSemBuf_inv",
        "closuresFrom_slots_lt",
    ]],
    partial=["IEEE-754 rounding / libm accuracy of the closures (as C12)",
             "faithfulness of cse()'s factoring is a hypothesis (Faithful), it is property C37"],
    rule="histories init/call/init/call... on ONE LambdaRealDoubleVisitor: 1-3 inits (cse on/off, 1-4 outputs sharing "
         "subexpressions, inputs = random ordered subset of {x,y,z,x0,x1}, outputs use a subset of the inputs), 1-2 calls "
         "after each successful init, failed inits (missing symbol / unsupported node) followed by re-init; distinct = "
         "distinct history lines; non-trivial = all; tags = step pattern (I0/I1 = init without/with cse, C = call, !kind = failing init)",
    not_covered=[
        "IEEE-754 rounding and libm accuracy (checked by the long-double oracle, not proved)",
        "SymEngine::cse itself (C37): its output is an input of the model and of the theorem (hypothesis Faithful)",
        "LambdaComplexDoubleVisitor (shares the template; no complex model), RealMPFR leaves, LLVM visitors (C14)",
        "calling after a failed init (state unspecified)",
        "exceptions thrown inside call() (none possible for the modelled node kinds when Piecewise ends with True)",
    ],
    assumptions=[
        "as C12 (Float vs libm entry points; special-function values supplied by the harness, computed by an independent "
        "plain lambda visitor on the operand)",
        "SymEngine::cse is deterministic for identical arguments within one process (the harness calls it a second time to "
        "report the replacement list the visitor used)",
    ],
    level_text="partial",
    level_note="Proved for every number structure and every prior visitor state: call after init = map of evalG over the "
               "outputs (CSE path under the faithful-factoring hypothesis), CSE on/off agreement, re-initialisation = fresh "
               "(status and values), slot order.  Floating point is tested bit-exactly against the model, not proved.",
    technique="Lean 4 model of init/call with closure snapshots + invariants; certificate-mode history replay at Float",
)
