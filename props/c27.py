import sys
from pathlib import Path
sys.path.insert(0, str(Path(__file__).resolve().parent.parent / "tools" / "extract"))
import c27_typecodes  # noqa: E402

SPEC = dict(
    id="C27",
    level="proof",
    lean_props="SymVerif.Props.C27",
    driver="C27",
    harness="c27.cpp",
    translators=[c27_typecodes.fn],
    theorems=[
        "SymVerif.C27.ivContains_sound",
    ],
    run_timeout=240,
    rule="",
    not_covered=[],
    assumptions=[],
)
