import sys
from pathlib import Path
sys.path.insert(0, str(Path(__file__).resolve().parent.parent / "tools" / "extract"))
import c27_typecodes  # noqa: E402

_T = "SymVerif.C27."
_S = "SymVerif.Sets."
SPEC = dict(
    id="C27",
    level="proof",
    lean_props="SymVerif.Props.C27",
    driver="C27",
    harness="c27.cpp",
    translators=[c27_typecodes.fn],
    run_timeout=600,
    theorems=[_T + n for n in [
        "contains_sound", "union_mem", "inter_mem", "compl_mem", "nunion_mem", "ninter_mem", "eval_sound",
        "sup_upper", "inf_lower", "sup_least_iv", "inf_greatest_iv",
        "interior_mem", "closure_mem", "boundary_iv", "boundary_iv_topological", "interior_iv", "closure_iv",
        "D13_orig_value", "D13_orig_wrong", "D14_orig_value", "D14_orig_wrong", "D14_fixed_value",
        "N5_orig_wrong", "N6_orig_wrong", "N3_orig_value", "N3_fixed_value",
    ]] + [_S + n for n in [
        "ops_sound", "top_sound", "muStep_sound", "miStep_sound", "mcStep_sound", "nuStep_sound", "niStep_sound",
        "complHelper_ok", "contains_iff", "ivInterIv_mem", "ivUnionIv_ok", "ivComplPieces_mem", "fsUnionIv_ok",
        "fsComplIv_ok", "fsComplLoop_spec", "ivInterInts_mem", "unionLoop_ok", "interLoop_ok",
        "SetE.beq'_sound",
    ]],
    partial=[
        "boundary of a Union = topological boundary is NOT proved (kept as def C27_boundary_full); proved: boundary "
        "of an Interval is exactly its set of topological boundary points, interior = s \\ boundary and "
        "closure = s u boundary on points for every set (interior_mem, closure_mem), boundary of number sets by "
        "definition; the Union case is covered by the harness oracle only",
        "sup/inf: upper/lower bound proved for every set (sup_upper, inf_lower); leastness proved for intervals only",
        "termination is not part of the theorems (partial correctness over call depth n); the original code has "
        "call chains that never return (findings N1, N2, N11, N12)",
        "Complement::set_union, Complement::set_complement, Intersection::set_complement are known to be wrong "
        "(N7-N9) and are not modelled: the model answers Err.defect there and the theorems exclude those results",
    ],
    rule="expression trees over interval(a,b,lo,ro) (rational or infinite end points), finiteset({rationals}), "
         "EmptySet, UniversalSet, Reals, Rationals, Integers, Naturals, Naturals0 with the free functions "
         "set_union/set_intersection/set_complement, the methods set_union/set_intersection/set_complement and "
         "boundary/interior/closure; verbs eval (canonical dump), contains <point>, sup, inf. distinct = distinct op "
         "lines, non-trivial = all. tags: <verb>-<family>; families ivfs[-inf]-d1..d3 (interval / finite-set trees of "
         "depth <= 3), ivfs-topo (with boundary/interior/closure), num-union (unions with number sets at any depth), "
         "num-d1 (one operation on atoms including number sets: creates Complement / Intersection objects), num-topo, "
         "nary-in<k>[x] / nary-un<k>[x] (one n-ary free-function call with k = 3..5 operands, finite sets over a shared "
         "value pool, x = one interval / Integers / Reals among them), "
         "fixed-* (the minimal inputs of the confirmed defects). Oracle per expression node: reference membership "
         "vector over all break points, neighbouring integers and midpoints vs (a) the structure of the result and "
         "(b) contains() on the result.",
    not_covered=[
        "Complexes, ConditionSet, ImageSet, symbolic or floating-point end points / elements (contains() may then "
        "return an unevaluated Contains)",
        "irrational points: Reals and Rationals have the same rational points (the interval theorems are order-"
        "theoretic and do not depend on the point being rational)",
        "Complement / Intersection objects as operands of further set operations (known wrong or non-terminating "
        "in the C++; reproducers in corpus/C27/known.ops)",
        "two different container elements with the same hash (the C++ then orders by __cmp__)",
        "infinite elements inside a FiniteSet as points (boundary([a, oo)) = {a, oo}); they are carried along but "
        "`mem` only speaks about rational points",
        "is_subset / is_superset / is_proper_* (derived from set_intersection + eq)",
    ],
    assumptions=[
        "min/max/eq/Eq/ceiling/floor of symengine on Integer, Rational, Infty are exact (checked by the "
        "correspondence on every generated case)",
        "RCPBasicKeyLess orders by hash() first; Integer/Rational/Infty/set hashes as mirrored (re-checked against "
        "the source text by tools/extract/c27_typecodes.py on every run)",
    ],
    level_text="Machine-checked proof (Lean 4 kernel + Mathlib order theory) that every set_union / "
               "set_intersection / set_complement method and the free n-ary functions of symengine/sets.cpp, "
               "modelled branch by branch including the hash-ordered container iteration, return sets whose "
               "rational points are exactly the boolean combination of the operands' points, for all operands in "
               "the fragment, all call depths and all rational points; contains() agrees with that denotation; sup / "
               "inf are bounds; interior / closure are s \\ boundary and s u boundary; the boundary of an interval is "
               "its topological boundary.",
    level_note="partial correctness (no termination claim); boundary of a Union and leastness of sup for unions are "
               "tested by the oracle, not proved; three C++ branches known to be wrong are excluded (Err.defect)",
    technique="Lean 4 executable model with modelled hash order + fuel-indexed mutual recursion; soundness by "
              "induction on the call depth with one non-recursive step lemma per class; grind/omega for the interval "
              "and integer-range case analyses; correspondence of canonical dumps with the real library; independent "
              "grid-membership oracle in the harness",
)
