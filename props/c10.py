SPEC = dict(
    id="C10",
    level="proof",
    lean_props="SymVerif.Props.C10",
    driver="C10",
    harness="c10.cpp",
    validate_mode=True,
    theorems=[
        "SymVerif.Expr.eqb_eq",
        "SymVerif.Diff.diffC_spec",
        "SymVerif.Diff.diffE_absent",
        "SymVerif.C10.powRule_correct",
        "SymVerif.C10.fn_correct",
        "SymVerif.C10.diffFacs_eval",
        "SymVerif.C10.diffE_correct",
        "SymVerif.C10.diff_correct_partial",
        "SymVerif.C10.diff_cache",
        "SymVerif.C10.diff_absent",
        "SymVerif.C10.judgeNF_ok",
        "SymVerif.C10.judge_ok",
        "SymVerif.C10.judge_absent_zero",
        "SymVerif.C10.certificate_sound",
        "SymVerif.C10.ex_judge_ok",
        "SymVerif.C10.evalK_evalR",
        "SymVerif.C10.equiv_real",
        "SymVerif.C10.certificate_real",
        "SymVerif.C10.library_result_is_derivative",
        "SymVerif.NF.equiv_sound",
    ],
    rule="one call diff(e, x, cache) per op line; e = random real expression built through the public API and dumped "
         "(families = tags: rational, elementary, inverse, radical, sympow, special, fsym, abs, mixed, shared-subterm "
         "(a subterm occurring several times: exercises the visited table), binder (Derivative and Subs nodes as "
         "*inputs*, built structurally without calling diff/subs), binder-bound-var (Subs objects that bind the differentiation "
         "variable itself with a point that still depends on it), " 
         "poly-univariate / poly-multivariate (UIntPoly, "
         "URatPoly, UExprPoly, MIntPoly: ops upoly/mpoly), piecewise (op pw)); x in {x,y,z} mostly occurring, ~8% "
         "absent; cache flag random; corpus/C10/rules.ops pins one op per coded rule and every finding. distinct = distinct op lines; non-trivial = all. impl_stats: "
         "value_checked_exact / value_checked_numeric / value_not_checked = how the value oracle judged each case, "
         "value_*_points_ok / *_discarded_* = sample points, unsup:* = why a point kind was unavailable, "
         "absent_symbol_cases.",
    not_covered=[
        "Lean certificate: inputs containing Derivative/Subs nodes, Piecewise, polynomial classes, Sign/Floor/Max... are "
        "answered SKIP:unsupported-* (value oracle only); results whose atoms were re-canonicalised by the library "
        "(e.g. asin(2x)' = 2/sqrt(1-4x^2), x**y * x**-1 merged) are SKIP:atoms-differ (~3% of the generated cases)",
        "normal forms whose estimated size exceeds the guard of Model/Diff.lean (`affordable`; unreduced fractions "
        "blow up on products of sums under negative exponents) are SKIP:too-large (~2% of thorough cases)",
        "the polynomial-class mirrors upolyDiff/mpolyDiff are executable models compared op by op; no theorem about them",
        "diff_correct_partial is over the reals and for the listed functions; special functions (gamma, erf, zeta, "
        "polygamma, beta, lambertw, incomplete gamma), abs, atan2, atanh/acoth/asech/acsch/asec/acsc/acot and "
        "FunctionSymbol chain rule have extracted rules compared by certificate + numeric oracle only",
        "complex evaluation points are covered by the numeric oracle only (no Lean theorem over C)",
        "the memo table is modelled at the granularity of visited sub-objects of e (keys pow(b,e) of Mul entries "
        "included); keys created inside a rule (mul(exp, log(base))) are not modelled",
        "sdiff, diff of matrices/sets/booleans (exceptions), GaloisField and polynomial classes, FunctionWrapper",
    ],
    assumptions=[
        "harness/sexp.h dumps the stored fields faithfully and vsexp::parse rebuilds an `eq` object (checked per generated case)",
        "atoms of the normal form (symbols, constants, function applications, non-integer powers) are interpreted by an "
        "arbitrary assignment of their canonical dump strings; certificate_sound holds for every such assignment",
        "real semantics evalR uses Mathlib's total functions (x/0 = 0, Real.log of a negative number = log|x|); the "
        "regularity predicate Ok excludes the points where that matters",
    ],
    level_text="(1) Lean proof over the reals that the model's symbolic derivative diffE (the rules of DiffVisitor, "
               "unsimplified) is the derivative (HasDerivAt) of the denoted function at every regular point, for "
               "arithmetic with integer/rational/symbolic powers and sin cos tan cot sec csc asin acos atan sinh cosh "
               "tanh coth sech csch asinh acosh log exp sqrt; (2) certificate checking of every generated library "
               "result against diffE by the proven-sound normaliser NF (equal value in every field of characteristic "
               "0 under every assignment of atoms); (3) proofs that the memoised traversal equals the plain one and "
               "that the derivative w.r.t. an absent symbol normalises to 0 (the driver additionally insists on the "
               "literal integer 0); (4) an independent dual-number oracle (exact rationals / long double, nested duals "
               "for Derivative nodes, polynomial bodies for function symbols) on the real objects.",
    level_note="proof for the real elementary fragment of the model + per-input certificates; special functions, "
               "unevaluated Derivative/Subs chain rule, complex points: certificate and/or numeric oracle only "
               "(C10_full is stated, not proved)",
    technique="textbook derivative on trees + HasDerivAt induction (Mathlib); reflexive rational-function normaliser as "
              "certificate checker (validate_mode); memo-table invariant; forward-mode AD oracle in the harness",
    partial=[
        "diff_correct_partial: real points, elementary fragment `Ok` (C10_full over complex points and all heads is a "
        "def, not proved; it is false for ACosh as coded, see docs/C10.md)",
    ],
    search_seeds=2,
)
