T = "SymVerif.C22."
SPEC = dict(
    id="C22",
    level="proof",
    lean_props="SymVerif.Props.C22",
    driver="C22",
    harness="c22.cpp",
    theorems=[T + n for n in [
        "reconcile_spec", "translate_sem", "translated_spec",
        "add_sem", "sub_sem", "mul_sem", "neg_sem", "pow_sem", "mem_union_vars",
        "fromDict_sem", "eval_sem", "coeff_sem",
        "eq_sound", "eq_complete_same_vars", "eq_iff_sem_same_vars", "eq_const_any_vars",
        "sorted_ext", "merge_comm", "add_comm_eq", "mul_comm_eq",
        "eq_incomplete_witness", "eq_full_fails", "eqOrig_unsound_witness",
        "mint_add_sem", "mint_sub_sem", "mint_mul_sem", "mint_neg_sem", "mint_pow_sem",
        "mint_eval_sem", "mint_fromDict_sem", "mint_eq_sound",
    ]],
    partial=[
        dict(full="SymVerif.C22.C22_eq_full", proved="SymVerif.C22.eq_iff_sem_same_vars + eq_sound",
             why="__eq__ is sound for all pairs (after the `&&` repair) but complete only over equal variable sets or "
                 "for constants; eq_full_fails refutes the full statement on x over {x} vs x over {x,y} "
                 "(the TODO in MSymEnginePoly::__eq__)"),
    ],
    rule="one op = one call of add/sub/mul/neg/pow_mpoly, eval, __eq__ or the from_dict/as_symbolic/from_basic round "
         "trip on MIntPoly (integer) or MExprPoly (rational coefficients), operands built with from_dict from a "
         "variable vector in arbitrary order; distinct = distinct op lines; non-trivial = every op; tags "
         "<op>-<overlap pattern of the two variable sets: equal|nested|overlap|disjoint|oneempty|bothempty>, "
         "exh-* = all 64 pairs of subsets of {x0,x1,x2}, pow-0/pow-1/pow-n, eq-* (same polynomial over same/superset "
         "variables, single terms with equal coefficient, identical, random); coefficients small and multi-limb, "
         "exponents 0-4, 0-6 terms, explicit zero coefficients, shared monomials with equal/opposite coefficients "
         "so that sums cancel and products collide",
    not_covered=[
        "MExprPoly with symbolic (non-numeric) coefficients: Expression arithmetic and its `== 0` test are not modelled",
        "negative exponents of MExprPoly (vec_int) and exponent sums >= 2^32 (unsigned wrap-around)",
        "from_dict with a repeated variable in the vector; eval with an unbound variable (vals.find(sym) == end(): UB)",
        "as_symbolic / from_basic are not modelled in Lean: the round trip and the homomorphism "
        "expand(as_symbolic(a op b) - (as_symbolic(a) op as_symbolic(b))) == 0 are checked by the harness oracle only; "
        "from_basic on generators that are powers (x**(1/2)) or non-symbols is not exercised",
        "__hash__ and compare (C01/C02, defect D2); only counted in impl_stats",
        "monomials.cpp / rings.cpp (expr2poly, monomial_mul): separate legacy code path not used by MSymEnginePoly",
    ],
    assumptions=[
        "the set_basic order (RCPBasicKeyLess) is one strict total order shared by all variable sets; the harness "
        "names the k-th pool symbol in that order x<k>, the model orders variables by k",
        "integer_class / Expression arithmetic on Integer and Rational is exact ring arithmetic (C05)",
        "unordered_map iteration order is irrelevant: results are compared as sorted term lists",
    ],
    level_text="proof",
    level_note="machine-checked against Mathlib MvPolynomial for an arbitrary commutative coefficient ring; model tied "
               "to the code by line-by-line correspondence on generated operations; __eq__ completeness partial",
    technique="Lean 4 model of UDictWrapper/reconcile/translate/MSymEnginePoly + theorems into MvPolynomial Nat R; "
              "differential correspondence; independent GMP dictionary oracle in the harness",
    run_timeout=1800,
)
