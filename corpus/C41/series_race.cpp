// Reproducer: Series::step_list keeps a function-local static std::list that is cleared and refilled
// without synchronisation -> data race between two threads expanding series, even in a
// WITH_SYMENGINE_THREAD_SAFE build.
#include <thread>
#include <cstdio>
#include <symengine/basic.h>
#include <symengine/symbol.h>
#include <symengine/add.h>
#include <symengine/pow.h>
#include <symengine/integer.h>
#include <symengine/series.h>
using namespace SymEngine;
int main()
{
    RCP<const Symbol> x = symbol("x");
    RCP<const Basic> e = div(integer(1), sub(integer(1), x)); // 1/(1-x): goes through series_invert -> step_list
    auto work = [&](unsigned prec) {
        for (int i = 0; i < 2000; i++) {
            auto s = series(e, x, prec + (i % 3));
            if (s->get_coeff(2)->__str__() != "1") {
                printf("WRONG coefficient %s\n", s->get_coeff(2)->__str__().c_str());
            }
        }
    };
    std::thread a(work, 8u), b(work, 20u);
    a.join();
    b.join();
    puts("done");
    return 0;
}
